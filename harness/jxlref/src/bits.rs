//! LSB-first bit writer and the field encodings of the JPEG XL codestream
//! (U32 with a *chosen* selector, U64 in any legal form, F16, Enum, signed
//! packing, zero padding).

use crate::src::Src;

#[derive(Clone, Default)]
pub struct BitWriter {
    pub bytes: Vec<u8>,
    nbits: usize,
}

/// One of the four alternatives of a `U32(d0,d1,d2,d3)` field.
#[derive(Clone, Copy, Debug)]
pub enum D {
    /// Constant value.
    C(u32),
    /// `offset + u(bits)`.
    B(u32, u32),
}

impl D {
    fn contains(&self, v: u32) -> bool {
        match *self {
            D::C(c) => c == v,
            D::B(off, bits) => {
                if v < off {
                    return false;
                }
                let d = (v - off) as u64;
                d < (1u64 << bits)
            }
        }
    }
}

impl BitWriter {
    pub fn new() -> Self {
        Self::default()
    }

    pub fn num_bits(&self) -> usize {
        self.nbits
    }

    pub fn bit(&mut self, b: bool) {
        self.bits(b as u64, 1);
    }

    pub fn bits(&mut self, v: u64, n: u32) {
        debug_assert!(n <= 64);
        debug_assert!(n == 64 || v < (1u64 << n), "value {v} does not fit {n} bits");
        for i in 0..n {
            let bit = ((v >> i) & 1) as u8;
            let idx = self.nbits / 8;
            if idx == self.bytes.len() {
                self.bytes.push(0);
            }
            self.bytes[idx] |= bit << (self.nbits % 8);
            self.nbits += 1;
        }
    }

    pub fn zero_pad(&mut self) {
        while self.nbits % 8 != 0 {
            self.bit(false);
        }
    }

    pub fn is_aligned(&self) -> bool {
        self.nbits % 8 == 0
    }

    /// Append whole bytes (writer must be byte aligned).
    pub fn append_bytes(&mut self, b: &[u8]) {
        assert!(self.is_aligned());
        self.bytes.extend_from_slice(b);
        self.nbits += b.len() * 8;
    }

    /// Append all bits of another writer.
    pub fn append(&mut self, other: &BitWriter) {
        if self.is_aligned() {
            let full = other.nbits / 8;
            self.bytes.extend_from_slice(&other.bytes[..full]);
            self.nbits += full * 8;
            let rem = other.nbits % 8;
            if rem != 0 {
                self.bits(other.bytes[full] as u64 & ((1 << rem) - 1), rem as u32);
            }
        } else {
            for i in 0..other.nbits {
                let bit = (other.bytes[i / 8] >> (i % 8)) & 1;
                self.bit(bit != 0);
            }
        }
    }

    pub fn finish(mut self) -> Vec<u8> {
        self.zero_pad();
        self.bytes
    }

    /// U32 with the canonical (first matching) selector.
    pub fn u32(&mut self, d: [D; 4], v: u32) {
        let sel = (0..4).find(|&i| d[i].contains(v));
        let sel = sel.unwrap_or_else(|| panic!("U32: value {v} not representable by {d:?}"));
        self.u32_sel(d, v, sel);
    }

    /// U32 where the selector is drawn from `src` among all alternatives that
    /// can represent the value (non-canonical encodings are legal).
    pub fn u32_any(&mut self, d: [D; 4], v: u32, src: &mut Src) {
        let opts: Vec<usize> = (0..4).filter(|&i| d[i].contains(v)).collect();
        assert!(!opts.is_empty(), "U32: value {v} not representable by {d:?}");
        let sel = opts[src.below(opts.len())];
        self.u32_sel(d, v, sel);
    }

    pub fn u32_sel(&mut self, d: [D; 4], v: u32, sel: usize) {
        self.bits(sel as u64, 2);
        match d[sel] {
            D::C(c) => assert_eq!(c, v),
            D::B(off, bits) => self.bits((v - off) as u64, bits),
        }
    }

    /// Legal U64 forms for a value: 0 = constant 0, 1 = 1+u(4), 2 = 17+u(8),
    /// 3 = varint.
    pub fn u64_forms(v: u64) -> Vec<u32> {
        let mut f = vec![];
        if v == 0 {
            f.push(0);
        }
        if (1..=16).contains(&v) {
            f.push(1);
        }
        if (17..=272).contains(&v) {
            f.push(2);
        }
        f.push(3);
        f
    }

    pub fn u64(&mut self, v: u64) {
        let f = Self::u64_forms(v)[0];
        self.u64_form(v, f, 0);
    }

    /// `extra_groups`: with form 3, number of superfluous (all-zero)
    /// continuation groups to add beyond what the value needs.
    pub fn u64_any(&mut self, v: u64, src: &mut Src) {
        let forms = Self::u64_forms(v);
        let f = forms[src.below(forms.len())];
        let extra = if f == 3 { src.weighted(&[6, 1, 1, 1]) as u32 * 2 } else { 0 };
        self.u64_form(v, f, extra);
    }

    pub fn u64_form(&mut self, v: u64, form: u32, extra_groups: u32) {
        self.bits(form as u64, 2);
        match form {
            0 => assert_eq!(v, 0),
            1 => self.bits(v - 1, 4),
            2 => self.bits(v - 17, 8),
            _ => {
                self.bits(v & 0xfff, 12);
                let mut rest = v >> 12;
                let mut shift = 12;
                let mut extra = extra_groups;
                loop {
                    if rest == 0 && extra == 0 {
                        self.bit(false);
                        break;
                    }
                    if rest == 0 {
                        extra -= 1;
                    }
                    self.bit(true);
                    if shift == 60 {
                        self.bits(rest & 0xf, 4);
                        break;
                    }
                    self.bits(rest & 0xff, 8);
                    rest >>= 8;
                    shift += 8;
                }
            }
        }
    }

    pub fn f16_bits(&mut self, bits: u16) {
        self.bits(bits as u64, 16);
    }

    /// Enum(): U32(0, 1, 2+u(4), 18+u(6)).
    pub fn enum_(&mut self, v: u32) {
        self.u32(ENUM_D, v);
    }

    pub fn enum_any(&mut self, v: u32, src: &mut Src) {
        self.u32_any(ENUM_D, v, src);
    }
}

pub const ENUM_D: [D; 4] = [D::C(0), D::C(1), D::B(2, 4), D::B(18, 6)];

pub fn pack_signed(v: i32) -> u32 {
    if v >= 0 {
        (v as u32) << 1
    } else {
        (((-(v as i64)) as u32) << 1).wrapping_sub(1)
    }
}

pub fn pack_signed64(v: i64) -> u64 {
    if v >= 0 {
        (v as u64) << 1
    } else {
        (((-(v as i128)) as u64) << 1).wrapping_sub(1)
    }
}

/// Exact value of an IEEE binary16 bit pattern as f32 (finite patterns only).
pub fn f16_to_f32(bits: u16) -> f32 {
    let sign = if bits & 0x8000 != 0 { -1.0f64 } else { 1.0 };
    let e = ((bits >> 10) & 0x1f) as i32;
    let m = (bits & 0x3ff) as f64;
    let v = if e == 0 {
        m * 2f64.powi(-24)
    } else {
        (1.0 + m / 1024.0) * 2f64.powi(e - 15)
    };
    (sign * v) as f32
}

/// Nearest binary16 pattern for a value (used only to produce plausible
/// generator outputs; exactness is never assumed).
pub fn f32_to_f16_bits(v: f32) -> u16 {
    let sign = if v.is_sign_negative() { 0x8000u16 } else { 0 };
    let a = v.abs() as f64;
    if a == 0.0 {
        return sign;
    }
    let mut best = 0u16;
    let mut best_err = f64::INFINITY;
    // binary search would do; this is called rarely, keep it obviously right
    let e = a.log2().floor() as i32;
    for ee in (e - 1)..=(e + 1) {
        let be = ee + 15;
        if be <= 0 {
            let m = (a / 2f64.powi(-24)).round().clamp(0.0, 1023.0) as u16;
            let val = m as f64 * 2f64.powi(-24);
            if (val - a).abs() < best_err {
                best_err = (val - a).abs();
                best = m;
            }
        } else if be < 31 {
            let m = ((a / 2f64.powi(ee) - 1.0) * 1024.0).round();
            if (0.0..=1023.0).contains(&m) {
                let val = (1.0 + m / 1024.0) * 2f64.powi(ee);
                if (val - a).abs() < best_err {
                    best_err = (val - a).abs();
                    best = ((be as u16) << 10) | m as u16;
                }
            }
        }
    }
    sign | best
}
