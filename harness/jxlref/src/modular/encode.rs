//! Modular sub-bitstream writer: header, tree, tokenisation (prediction +
//! context modelling run on the true image), LZ77 matching, and assembly of
//! the global / LF-group / pass-group streams of a frame.

use super::predict::*;
use super::transform::*;
use super::tree::*;
use crate::bits::{pack_signed, BitWriter, D};
use crate::entropy::*;
use crate::src::Src;

pub const BEGIN_C_D: [D; 4] = [D::B(0, 3), D::B(8, 6), D::B(72, 10), D::B(1096, 13)];

pub fn write_wp_header(w: &mut BitWriter, p: &WpParams, src: &mut Src) {
    let default = *p == WpParams::default() && src.chance(230);
    w.bit(default);
    if !default {
        w.bits(p.p1 as u64, 5);
        w.bits(p.p2 as u64, 5);
        for v in p.p3 {
            w.bits(v as u64, 5);
        }
        for v in p.w {
            w.bits(v as u64, 4);
        }
    }
}

pub fn write_transform(w: &mut BitWriter, t: &Transform, src: &mut Src) {
    match t {
        Transform::Rct { begin_c, rct_type } => {
            w.bits(0, 2);
            w.u32_any(BEGIN_C_D, *begin_c as u32, src);
            w.u32_any([D::C(6), D::B(0, 2), D::B(2, 4), D::B(10, 6)], *rct_type, src);
        }
        Transform::Palette { begin_c, num_c, nb_colours, nb_deltas, d_pred } => {
            w.bits(1, 2);
            w.u32_any(BEGIN_C_D, *begin_c as u32, src);
            w.u32_any([D::C(1), D::C(3), D::C(4), D::B(1, 13)], *num_c as u32, src);
            w.u32_any([D::B(0, 8), D::B(256, 10), D::B(1280, 12), D::B(5376, 16)], *nb_colours as u32, src);
            w.u32_any([D::C(0), D::B(1, 8), D::B(257, 10), D::B(1281, 16)], *nb_deltas as u32, src);
            w.bits(*d_pred as u64, 4);
        }
        Transform::Squeeze { steps, explicit } => {
            w.bits(2, 2);
            let n = if *explicit { steps.len() } else { 0 };
            w.u32_any([D::C(0), D::B(1, 4), D::B(9, 6), D::B(41, 8)], n as u32, src);
            if *explicit {
                for s in steps {
                    w.bit(s.horizontal);
                    w.bit(s.in_place);
                    w.u32_any(BEGIN_C_D, s.begin_c as u32, src);
                    w.u32_any([D::C(1), D::C(2), D::C(3), D::B(4, 4)], s.num_c as u32, src);
                }
            }
        }
    }
}

pub fn write_modular_header(w: &mut BitWriter, use_global_tree: bool, wp: &WpParams, transforms: &[Transform], src: &mut Src) {
    w.bit(use_global_tree);
    write_wp_header(w, wp, src);
    w.u32_any([D::C(0), D::C(1), D::B(2, 4), D::B(18, 8)], transforms.len() as u32, src);
    for t in transforms {
        write_transform(w, t, src);
    }
}

pub fn gen_wp_params(src: &mut Src) -> WpParams {
    if !src.chance(64) {
        return WpParams::default();
    }
    WpParams {
        p1: src.range(0, 31) as i64,
        p2: src.range(0, 31) as i64,
        p3: [src.range(0, 31) as i64, src.range(0, 31) as i64, src.range(0, 31) as i64, src.range(0, 31) as i64, src.range(0, 31) as i64],
        w: [src.range(0, 15) as u32, src.range(0, 15) as u32, src.range(0, 15) as u32, src.range(0, 15) as u32],
    }
}

#[derive(Debug)]
pub enum TokError {
    /// a property, prediction or residual left the 32-bit range
    Overflow,
}

/// Runs the prediction/context machinery over the channels of one stream and
/// returns (leaf context, residual token) per sample.  With `quantize`, leaves
/// with a multiplier != 1 snap the sample to the nearest representable value
/// (the channel is modified: it then *is* the image this stream encodes).
pub fn tokenize(chans: &mut [Chan], tree: &Tree, wp: &WpParams, stream_idx: u32, quantize: bool, range: Range) -> Result<Vec<(u32, u32)>, TokError> {
    let mut out = vec![];
    let uses_wp = tree.uses_wp();
    let maxp = tree.max_property();
    let used = tree.used_properties();
    let n_extra = if maxp >= 16 { ((maxp - 16) / 4 + 1) as usize } else { 0 };
    for i in 0..chans.len() {
        if chans[i].w == 0 || chans[i].h == 0 {
            continue;
        }
        let (before, rest) = chans.split_at_mut(i);
        let cur = &mut rest[0];
        // previous channels with identical layout, most recent first
        let prev: Vec<&Chan> = before.iter().rev().filter(|p| p.same_layout(cur)).collect();
        let mut wps = if uses_wp { Some(WpState::new(cur.w, wp)) } else { None };
        for y in 0..cur.h {
            let mut prev9 = 0i64;
            for x in 0..cur.w {
                let nb = neighbours(cur, x, y);
                let (wp_pred, wp_err) = match wps.as_mut() {
                    Some(s) => s.predict(x, y, &nb),
                    None => (0, 0),
                };
                let props = properties(i, stream_idx, x, y, &nb, prev9, wp_err, &prev, n_extra);
                if used.iter().any(|&u| {
                    let p = props.get(u as usize).copied().unwrap_or(0);
                    // property 8 also depends on property 9 of the previous pixel
                    let p9 = if u == 8 { props[9] } else { 0 };
                    p < i32::MIN as i64 || p > i32::MAX as i64 || p9 < i32::MIN as i64 || p9 > i32::MAX as i64
                }) {
                    return Err(TokError::Overflow);
                }
                prev9 = props[9];
                let leaf = tree.lookup(&props);
                let pred = predict(leaf.predictor, &nb, wp_pred);
                if pred < i32::MIN as i64 || pred > i32::MAX as i64 {
                    return Err(TokError::Overflow);
                }
                let m = leaf.multiplier();
                let v = cur.at(x, y) as i64;
                let target = v - pred - leaf.offset as i64;
                let diff = if m == 1 {
                    target
                } else {
                    if !quantize {
                        panic!("multiplier != 1 without quantisation");
                    }
                    // nearest multiple
                    let q = target.div_euclid(m);
                    if (target - q * m) * 2 >= m {
                        q + 1
                    } else {
                        q
                    }
                };
                if diff < -(1i64 << 31) + 1 || diff > (1i64 << 31) - 1 {
                    return Err(TokError::Overflow);
                }
                let scaled = diff * m + leaf.offset as i64;
                if scaled < i32::MIN as i64 || scaled > i32::MAX as i64 {
                    return Err(TokError::Overflow);
                }
                let nv = pred + scaled;
                if !range.ok(nv) {
                    return Err(TokError::Overflow);
                }
                if m != 1 {
                    cur.set(x, y, nv as i32);
                } else {
                    debug_assert_eq!(nv, v);
                }
                if let Some(s) = wps.as_mut() {
                    s.update(x, y, nv);
                }
                out.push((leaf.ctx, pack_signed(diff as i32)));
            }
        }
    }
    Ok(out)
}

/// Turns residual tokens into entropy-coder ops, replacing generated runs by
/// LZ77 copies when `min_length` is given.  `row_w` (= dist_multiplier) steers
/// the candidate distances.
pub fn make_ops(tokens: &[(u32, u32)], min_length: Option<u32>, dist_multiplier: u32, src: &mut Src, force_rle: bool) -> (Vec<Op>, usize) {
    let Some(ml) = min_length else {
        return (tokens.iter().map(|&(ctx, value)| Op::Lit { ctx, value }).collect(), 0);
    };
    let mut ops = vec![];
    let mut i = 0;
    let mut copies = 0;
    let n = tokens.len();
    let try_prob = if force_rle { 256 } else { src.range(40, 256) as u32 };
    while i < n {
        if i > 0 && (force_rle || src.chance(try_prob)) {
            // candidate distances
            let mut cands: Vec<u32> = vec![1];
            if !force_rle {
                if dist_multiplier > 0 {
                    cands.push(dist_multiplier);
                    cands.push(dist_multiplier + 1);
                    if dist_multiplier > 1 {
                        cands.push(dist_multiplier - 1);
                    }
                }
                cands.push(2);
                cands.push(src.range(1, i.min(1 << 20) as u64) as u32);
            }
            let mut best: Option<(u32, usize)> = None;
            for &d in &cands {
                let d = d as usize;
                if d == 0 || d > i || d > (1 << 20) {
                    continue;
                }
                let mut l = 0;
                while i + l < n && tokens[i + l].1 == tokens[i + l - d].1 {
                    l += 1;
                }
                if l >= ml as usize && best.map(|b| l > b.1).unwrap_or(true) {
                    best = Some((d as u32, l));
                }
            }
            if let Some((d, l)) = best {
                let len = if force_rle || src.chance(200) { l } else { src.range(ml as u64, l as u64) as usize };
                let dv = if force_rle {
                    // the RLE-only decoder path needs the distance *symbol* to be constant 1
                    // (with a multiplier: special distance index 1 = (1, 0) -> distance 1; without: value 0)
                    if dist_multiplier == 0 { 0 } else { 1 }
                } else {
                    let c = lz77_distance_values(d, dist_multiplier, i as u32, src);
                    c[src.below(c.len())]
                };
                ops.push(Op::Copy { ctx: tokens[i].0, len: len as u32, dist_value: dv });
                i += len;
                copies += 1;
                continue;
            }
        }
        ops.push(Op::Lit { ctx: tokens[i].0, value: tokens[i].1 });
        i += 1;
    }
    (ops, copies)
}

/// A tree together with the entropy code for its leaves' residuals.
pub struct TreeCode {
    pub tree: Tree,
    pub code: EntropyCode,
}

/// Writes an MA tree + symbol code description.
pub fn write_tree_and_code(w: &mut BitWriter, tc: &TreeCode, src: &mut Src) {
    let mut ops = tc.tree.ops();
    crate::hostile::perturb(&mut ops);
    let tree_code = EntropyCode::generate(src, 6, &[&ops], &CodeOpts::default());
    tree_code.write_header(w, src);
    tree_code.write_stream(w, &ops, true);
    tc.code.write_header(w, src);
}

/// One modular sub-bitstream, ready except for the symbol code (which may be shared).
pub struct StreamPlan {
    pub stream_idx: u32,
    pub use_global_tree: bool,
    pub wp: WpParams,
    pub transforms: Vec<Transform>,
    /// channels after this stream's own forward transforms
    pub chans: Vec<Chan>,
    pub local_tree: Option<Tree>,
    pub ops: Vec<Op>,
    pub copies: usize,
    pub tree_label: &'static str,
    pub lz_min_length: Option<u32>,
}

#[derive(Clone, Debug)]
pub struct ModularOpts {
    pub bit_depth: u32,
    /// 2^15 when the image claims 16-bit buffers suffice, else 2^31
    pub range_limit: i64,
    pub allow_transforms: bool,
    pub allow_squeeze: bool,
    pub allow_rct: bool,
    pub allow_palette: bool,
    pub allow_lz77: bool,
    pub allow_multiplier: bool,
    pub amplitude: i64,
}

#[derive(Clone, Debug)]
pub struct FrameGeom {
    pub group_dim: usize,
    pub groups_per_row: usize,
    pub groups_per_col: usize,
    pub lf_groups_per_row: usize,
    pub lf_groups_per_col: usize,
    /// (minshift, maxshift) per pass index
    pub pass_shifts: Vec<(i32, i32)>,
}

impl FrameGeom {
    pub fn num_groups(&self) -> usize {
        self.groups_per_row * self.groups_per_col
    }
    pub fn num_lf_groups(&self) -> usize {
        self.lf_groups_per_row * self.lf_groups_per_col
    }
    pub fn num_passes(&self) -> usize {
        self.pass_shifts.len()
    }
}

pub struct ModularFrameBits {
    /// GlobalModular bits (global tree flag, tree, header, global channels) to append to LfGlobal
    pub global: BitWriter,
    pub lf_groups: Vec<BitWriter>,
    /// [pass][group]
    pub pass_groups: Vec<Vec<BitWriter>>,
    /// the image a correct decoder must output (differs from the input only when
    /// multiplier leaves quantised it)
    pub expected: Vec<Chan>,
    pub classes: Vec<String>,
    /// free-form description of the generated structure (transform chains, trees)
    pub debug: String,
}

/// Generates a forward transform chain on `ch`, applying each accepted
/// transform in place.  Returns the descriptions (in application order).
pub fn gen_transform_chain(src: &mut Src, ch: &mut Vec<Chan>, nb_meta: &mut usize, wp: &WpParams, o: &ModularOpts, max_transforms: usize, classes: &mut Vec<String>) -> Vec<Transform> {
    let mut chain = vec![];
    if !o.allow_transforms || ch.is_empty() {
        return chain;
    }
    let range = Range { limit: o.range_limit };
    let n = match src.weighted(&[3, 3, 2, 1]) {
        0 => 0,
        1 => 1,
        2 => 2,
        _ => src.range(0, max_transforms as u64) as usize,
    }
    .min(max_transforms);
    let mut squeezed = false;
    for _ in 0..n {
        let kind = src.weighted(&[if o.allow_rct { 4 } else { 0 }, if o.allow_palette { 3 } else { 0 }, if o.allow_squeeze && !squeezed { 3 } else { 0 }, 1]);
        let mut trial = ch.clone();
        let mut trial_meta = *nb_meta;
        match kind {
            0 => {
                if trial.len() < trial_meta + 3 && trial.len() < 3 {
                    continue;
                }
                let begin_c = src.below(trial.len().saturating_sub(2).max(1));
                let rct_type = if src.chance(40) { 6 } else { src.range(0, 41) as u32 };
                if rct_forward(&mut trial, begin_c, rct_type, range).is_ok() {
                    *ch = trial;
                    chain.push(Transform::Rct { begin_c, rct_type });
                    classes.push(format!("tx:rct{}", if rct_type % 7 == 6 { "-ycgco" } else { "" }));
                }
            }
            1 => {
                let begin_c = if trial_meta > 0 && src.chance(24) { src.below(trial_meta) } else { trial_meta + src.below((trial.len() - trial_meta).max(1)) };
                if begin_c >= trial.len() {
                    continue;
                }
                // number of channels with equal size from begin_c
                let mut maxc = 1;
                while begin_c + maxc < trial.len() && trial[begin_c + maxc].w == trial[begin_c].w && trial[begin_c + maxc].h == trial[begin_c].h && (begin_c >= trial_meta || begin_c + maxc < trial_meta) {
                    maxc += 1;
                }
                let num_c = match src.weighted(&[2, 2, 1]) {
                    0 => 1,
                    1 => maxc.min(3),
                    _ => src.range(1, maxc as u64) as usize,
                };
                let opts = PaletteOpts {
                    max_colours: if src.chance(200) { 256 } else { 2000 },
                    d_pred: if src.chance(128) { 0 } else { src.pick(&ALL_PREDICTORS) },
                    use_deltas: src.chance(100),
                    use_implicit: src.chance(100),
                    bit_depth: o.bit_depth,
                };
                match palette_forward(&mut trial, &mut trial_meta, begin_c, num_c, &opts, wp, range, src) {
                    Ok(t) => {
                        if let Transform::Palette { nb_deltas, .. } = &t {
                            classes.push(format!("tx:palette{}{}", if *nb_deltas > 0 { "+delta" } else { "" }, if begin_c < *nb_meta { "(meta)" } else { "" }));
                            if opts.d_pred == 6 && *nb_deltas > 0 {
                                classes.push("tx:palette-wp-delta".into());
                            }
                        }
                        *ch = trial;
                        *nb_meta = trial_meta;
                        chain.push(t);
                    }
                    Err(_) => {}
                }
            }
            3 => {}
            _ => {
                let explicit = src.chance(100);
                let steps = if explicit {
                    let k = src.range(1, 4) as usize;
                    let mut steps = vec![];
                    // simulate channel count growth to keep ranges valid
                    let mut count = trial.len();
                    for _ in 0..k {
                        let begin_c = trial_meta + src.below((count - trial_meta).max(1));
                        if begin_c >= count {
                            break;
                        }
                        let num_c = src.range(1, (count - begin_c).min(4) as u64) as usize;
                        steps.push(SqueezeStep { horizontal: src.bool(), in_place: src.bool(), begin_c, num_c });
                        count += num_c;
                    }
                    steps
                } else {
                    default_squeeze_steps(&trial, trial_meta)
                };
                if steps.is_empty() {
                    continue;
                }
                // group placement needs (group_dim >> shift) >= 1: refuse very deep squeezes of big channels
                if squeeze_forward(&mut trial, &mut trial_meta, &steps, range).is_ok() && trial.iter().all(|c| c.hshift <= 6 && c.vshift <= 6) {
                    *ch = trial;
                    *nb_meta = trial_meta;
                    classes.push(format!("tx:squeeze-{}", if explicit { "explicit" } else { "default" }));
                    chain.push(Transform::Squeeze { steps, explicit });
                    squeezed = true;
                }
            }
        }
    }
    chain
}

fn tile_of(c: &Chan, gx: usize, gy: usize, gw: usize, gh: usize) -> Chan {
    c.crop(gx * gw, gy * gh, gw, gh)
}

/// Encodes the Modular part of a frame.
pub fn encode_modular_frame(src: &mut Src, image: &[Chan], geom: &FrameGeom, o: &ModularOpts) -> ModularFrameBits {
    for attempt in 0..4 {
        let mut o2 = o.clone();
        if attempt >= 2 {
            // progressively simpler so that a case is always produced
            o2.allow_transforms = false;
            o2.allow_multiplier = false;
        }
        if let Some(r) = try_encode_modular_frame(src, image, geom, &o2, attempt >= 3) {
            return r;
        }
    }
    panic!("modular frame could not be encoded even in the simplest configuration");
}

fn try_encode_modular_frame(src: &mut Src, image: &[Chan], geom: &FrameGeom, o: &ModularOpts, simplest: bool) -> Option<ModularFrameBits> {
    let mut classes: Vec<String> = vec![];
    let range = Range { limit: o.range_limit };
    let mut out_global = BitWriter::new();
    if image.is_empty() {
        // no modular channels at all: only the "has global tree" flag is present
        out_global.bit(false);
        return Some(ModularFrameBits { global: out_global, lf_groups: (0..geom.num_lf_groups()).map(|_| BitWriter::new()).collect(), pass_groups: (0..geom.num_passes()).map(|_| (0..geom.num_groups()).map(|_| BitWriter::new()).collect()).collect(), expected: vec![], classes, debug: String::new() });
    }
    // ---- global header + transforms ------------------------------------
    let g_wp = gen_wp_params(src);
    let mut coded: Vec<Chan> = image.to_vec();
    let mut nb_meta = 0usize;
    let g_chain = gen_transform_chain(src, &mut coded, &mut nb_meta, &g_wp, o, 4, &mut classes);
    // ---- partition ------------------------------------------------------
    let gd = geom.group_dim;
    let mut n_global = 0;
    while n_global < coded.len() && (n_global < nb_meta || (coded[n_global].w <= gd && coded[n_global].h <= gd)) {
        n_global += 1;
    }
    // any grouped channel must be shiftable and keep a non-empty group tile
    for c in &coded[n_global..] {
        if c.hshift < 0 || c.vshift < 0 || (gd >> c.hshift) == 0 || (gd >> c.vshift) == 0 {
            return None;
        }
        if c.hshift >= 3 && c.vshift >= 3 && ((gd >> (c.hshift - 3)) == 0 || (gd >> (c.vshift - 3)) == 0) {
            return None;
        }
    }
    let num_lf = geom.num_lf_groups();
    let num_g = geom.num_groups();
    let any_transform = !g_chain.is_empty();
    // stream plans: index 0 = global, then lf groups, then pass groups
    struct Slot {
        /// indices into `coded` + tile rectangle
        tiles: Vec<(usize, usize, usize, usize, usize)>,
        stream_idx: u32,
        kind: u8,
    }
    let mut slots: Vec<Slot> = vec![Slot { tiles: (0..n_global).map(|i| (i, 0, 0, coded[i].w, coded[i].h)).collect(), stream_idx: 0, kind: 0 }];
    for lg in 0..num_lf {
        slots.push(Slot { tiles: vec![], stream_idx: (1 + num_lf + lg) as u32, kind: 1 });
    }
    for p in 0..geom.num_passes() {
        for g in 0..num_g {
            slots.push(Slot { tiles: vec![], stream_idx: (1 + 3 * num_lf + 17 + p * num_g + g) as u32, kind: 2 });
        }
    }
    for (ci, c) in coded.iter().enumerate().skip(n_global) {
        if c.hshift < 3 || c.vshift < 3 {
            let shift = c.hshift.min(c.vshift);
            let pass = geom.pass_shifts.iter().position(|&(mn, mx)| (mn..mx).contains(&shift))?;
            let (gw, gh) = (gd >> c.hshift, gd >> c.vshift);
            for g in 0..num_g {
                let (gx, gy) = (g % geom.groups_per_row, g / geom.groups_per_row);
                let t = tile_of(c, gx, gy, gw, gh);
                if t.w == 0 || t.h == 0 {
                    continue;
                }
                slots[1 + num_lf + pass * num_g + g].tiles.push((ci, gx * gw, gy * gh, t.w, t.h));
            }
        } else {
            let (gw, gh) = (gd >> (c.hshift - 3), gd >> (c.vshift - 3));
            for lg in 0..num_lf {
                let (gx, gy) = (lg % geom.lf_groups_per_row, lg / geom.lf_groups_per_row);
                let t = tile_of(c, gx, gy, gw, gh);
                if t.w == 0 || t.h == 0 {
                    continue;
                }
                slots[1 + lg].tiles.push((ci, gx * gw, gy * gh, t.w, t.h));
            }
        }
    }
    if n_global < coded.len() {
        classes.push("multi-section".into());
    }
    // ---- trees ----------------------------------------------------------
    let stream_indices: Vec<u32> = slots.iter().filter(|s| !s.tiles.is_empty() || s.kind == 0).map(|s| s.stream_idx).collect();
    let tctx = TreeGenCtx {
        max_channels: coded.len().max(1),
        stream_indices: if stream_indices.is_empty() { vec![0] } else { stream_indices },
        max_w: coded.iter().map(|c| c.w).max().unwrap_or(1).min(gd.max(1) * 8),
        max_h: coded.iter().map(|c| c.h).max().unwrap_or(1).min(gd.max(1) * 8),
        amplitude: o.amplitude.max(1),
        max_prev: coded.len().min(3),
        allow_multiplier: o.allow_multiplier && !any_transform,
        max_nodes: 61,
    };
    let has_global_tree = !simplest && src.chance(170);
    let global_tree: Option<(Tree, &'static str)> = if has_global_tree { Some(gen_tree(src, &tctx)) } else { None };
    // ---- per-stream plans -----------------------------------------------
    let lz_global = if o.allow_lz77 && src.chance(60) { Some(Lz77Params::gen_min_length(src)) } else { None };
    let force_rle_global = lz_global.is_some() && src.chance(80);
    let mut plans: Vec<Option<StreamPlan>> = vec![];
    let mut quantised = false;
    for (si, slot) in slots.iter().enumerate() {
        if slot.tiles.is_empty() && si != 0 {
            plans.push(None);
            continue;
        }
        let mut chans: Vec<Chan> = slot.tiles.iter().map(|&(ci, x0, y0, w, h)| coded[ci].crop(x0, y0, w, h)).collect();
        let is_global = si == 0;
        let (wp, transforms) = if is_global {
            (g_wp.clone(), g_chain.clone())
        } else {
            let wp = gen_wp_params(src);
            // group-level transforms: rarely, and never squeeze/palette-of-meta surprises beyond the generator's rules
            let mut lm = 0usize;
            let mut lc = vec![];
            let chain = if o.allow_transforms && src.chance(28) { gen_transform_chain(src, &mut chans, &mut lm, &wp, o, 2, &mut lc) } else { vec![] };
            if !chain.is_empty() {
                classes.push("group-level-transform".into());
                classes.extend(lc);
            }
            (wp, chain)
        };
        let local_transformed = !is_global && !transforms.is_empty();
        let use_global = global_tree.is_some() && !(src.chance(60));
        let (tree, label, local_tree) = if use_global {
            let (t, l) = global_tree.as_ref().unwrap();
            (t.clone(), *l, None)
        } else {
            let mut c2 = tctx.clone();
            if local_transformed || any_transform {
                c2.allow_multiplier = false;
            }
            let (t, l) = if simplest { (Tree::single(5), "single-leaf-gradient") } else { gen_tree(src, &c2) };
            (t.clone(), l, Some(t))
        };
        let quantize = !any_transform && !local_transformed;
        if !tree.all_multipliers_one() && !quantize {
            return None;
        }
        let tokens = match tokenize(&mut chans, &tree, &wp, slot.stream_idx, quantize, range) {
            Ok(t) => t,
            Err(_) => {
                classes.push("excluded:i32-overflow-retry".into());
                return None;
            }
        };
        if quantize && !tree.all_multipliers_one() {
            quantised = true;
            for (k, &(ci, x0, y0, _, _)) in slot.tiles.iter().enumerate() {
                let t = chans[k].clone();
                coded[ci].paste(x0, y0, &t);
            }
        }
        let dist_multiplier = chans.iter().map(|c| c.w).max().unwrap_or(0) as u32;
        let lz = if use_global { lz_global } else if o.allow_lz77 && src.chance(60) { Some(Lz77Params::gen_min_length(src)) } else { None };
        let force_rle = if use_global { force_rle_global } else { lz.is_some() && src.chance(80) };
        let (ops, copies) = make_ops(&tokens, lz, dist_multiplier, src, force_rle);
        plans.push(Some(StreamPlan { stream_idx: slot.stream_idx, use_global_tree: use_global, wp, transforms, chans, local_tree, ops, copies, tree_label: label, lz_min_length: lz }));
    }
    if quantised {
        classes.push("multiplier-quantised".into());
    }
    // ---- codes ----------------------------------------------------------
    let global_tc: Option<TreeCode> = global_tree.map(|(tree, label)| {
        let streams: Vec<&[Op]> = plans.iter().flatten().filter(|p| p.use_global_tree).map(|p| &p.ops[..]).collect();
        let code = EntropyCode::generate(src, tree.num_leaves as usize, &streams, &CodeOpts { lz77_min_length: lz_global, use_prefix: None, single_cluster: false, distinct_clusters: false });
        classes.push(format!("global-tree:{label}"));
        TreeCode { tree, code }
    });
    out_global.bit(global_tc.is_some());
    if let Some(tc) = &global_tc {
        write_tree_and_code(&mut out_global, tc, src);
    }
    let mut lf_bits: Vec<BitWriter> = (0..num_lf).map(|_| BitWriter::new()).collect();
    let mut pass_bits: Vec<Vec<BitWriter>> = (0..geom.num_passes()).map(|_| (0..num_g).map(|_| BitWriter::new()).collect()).collect();
    for (si, plan) in plans.iter().enumerate() {
        let Some(p) = plan else { continue };
        let w: &mut BitWriter = if si == 0 {
            &mut out_global
        } else if si <= num_lf {
            &mut lf_bits[si - 1]
        } else {
            let k = si - 1 - num_lf;
            &mut pass_bits[k / num_g][k % num_g]
        };
        write_modular_header(w, p.use_global_tree, &p.wp, &p.transforms, src);
        classes.push(format!("tree:{}", p.tree_label));
        if p.copies > 0 {
            classes.push("lz77-copies".into());
        }
        if p.use_global_tree {
            global_tc.as_ref().unwrap().code.write_stream(w, &p.ops, true);
        } else {
            let tree = p.local_tree.clone().unwrap();
            let ml = p.lz_min_length;
            let code = EntropyCode::generate(src, tree.num_leaves as usize, &[&p.ops], &CodeOpts { lz77_min_length: ml, use_prefix: None, single_cluster: false, distinct_clusters: false });
            for n in &code.notes {
                if n == "lz77" || n.starts_with("ans") && n.contains("single") {
                    classes.push(format!("code:{n}"));
                }
            }
            let tc = TreeCode { tree, code };
            write_tree_and_code(w, &tc, src);
            tc.code.write_stream(w, &p.ops, true);
        }
    }
    // ---- expected image ---------------------------------------------------
    let expected = if quantised { coded.clone() } else { image.to_vec() };
    if si_check_needed(&g_chain) {
        // self-check of the reference transforms: inverse(forward(x)) == x
        let mut back = coded.clone();
        inverse_chain(&mut back, &g_chain, &g_wp, o.bit_depth);
        if !quantised {
            assert_eq!(back.len(), image.len(), "reference transform chain is not invertible (channel count)");
            for (a, b) in back.iter().zip(image) {
                assert!(a.w == b.w && a.h == b.h && a.data == b.data, "reference transform chain is not invertible");
            }
        }
    }
    let mut debug = format!("global chain: {:?}; wp: {:?}\n", g_chain, g_wp);
    for p in plans.iter().flatten() {
        debug.push_str(&format!("stream {}: global_tree={} transforms={:?} chans={:?} tree={:?} ops={}\n", p.stream_idx, p.use_global_tree, p.transforms, p.chans.iter().map(|c| (c.w, c.h, c.hshift, c.vshift)).collect::<Vec<_>>(), p.local_tree.as_ref().map(|t| format!("{:?}", t.root)), p.ops.len()));
    }
    Some(ModularFrameBits { global: out_global, lf_groups: lf_bits, pass_groups: pass_bits, expected, classes, debug })
}

fn si_check_needed(chain: &[Transform]) -> bool {
    !chain.is_empty()
}


/// Deterministic helper for hand-written regressions: a single-section frame
/// whose already-transformed channels `coded` are written with the given
/// transform descriptions and one local tree.  Returns the GlobalModular bits.
pub fn encode_fixed_global(coded: &mut [Chan], chain: &[Transform], wp: &WpParams, tree: &Tree) -> BitWriter {
    let zeros: [u8; 0] = [];
    let mut src = Src::new(&zeros);
    let mut w = BitWriter::new();
    w.bit(false); // no global tree
    write_modular_header(&mut w, false, wp, chain, &mut src);
    let tokens = tokenize(coded, tree, wp, 0, false, Range { limit: 1 << 31 }).expect("fixed case overflows");
    let (ops, _) = make_ops(&tokens, None, 0, &mut src, false);
    let code = EntropyCode::generate(&mut src, tree.num_leaves as usize, &[&ops], &CodeOpts { lz77_min_length: None, use_prefix: Some(true), single_cluster: false, distinct_clusters: true });
    let tc = TreeCode { tree: tree.clone(), code };
    write_tree_and_code(&mut w, &tc, &mut src);
    tc.code.write_stream(&mut w, &ops, true);
    w
}

/// One self-contained Modular sub-bitstream (own header, own local tree and
/// code): ModularHeader(use_global_tree = 0, wp, transforms) + MA tree + symbol
/// code + channel data for `stream_idx`.  Used for the Modular images embedded
/// in VarDCT frames (LF coefficients, HF metadata, RAW quant tables) and for
/// any group stream that does not share the global tree.  `chans` are the
/// channels *before* this stream's own transforms; generated transforms are
/// applied when `o.allow_transforms`.  Returns the bits and the class labels.
pub fn encode_local_substream(src: &mut Src, chans: &[Chan], stream_idx: u32, o: &ModularOpts) -> (BitWriter, Vec<String>) {
    let range = Range { limit: o.range_limit };
    for attempt in 0..4 {
        let mut classes = vec![];
        let wp = gen_wp_params(src);
        let mut coded: Vec<Chan> = chans.to_vec();
        let mut nb_meta = 0usize;
        let mut o2 = o.clone();
        if attempt >= 2 {
            o2.allow_transforms = false;
        }
        let chain = gen_transform_chain(src, &mut coded, &mut nb_meta, &wp, &o2, 2, &mut classes);
        let tctx = TreeGenCtx {
            max_channels: coded.len().max(1),
            stream_indices: vec![stream_idx],
            max_w: coded.iter().map(|c| c.w).max().unwrap_or(1),
            max_h: coded.iter().map(|c| c.h).max().unwrap_or(1),
            amplitude: o.amplitude.max(1),
            max_prev: coded.len().min(3),
            allow_multiplier: false,
            max_nodes: 41,
        };
        let (tree, label) = if attempt >= 3 { (Tree::single(5), "single-leaf-gradient") } else { gen_tree(src, &tctx) };
        let Ok(tokens) = tokenize(&mut coded, &tree, &wp, stream_idx, false, range) else { continue };
        let dist_multiplier = coded.iter().map(|c| c.w).max().unwrap_or(0) as u32;
        let lz = if o.allow_lz77 && src.chance(50) { Some(Lz77Params::gen_min_length(src)) } else { None };
        let (ops, _) = make_ops(&tokens, lz, dist_multiplier, src, false);
        let code = EntropyCode::generate(src, tree.num_leaves as usize, &[&ops], &CodeOpts { lz77_min_length: lz, ..Default::default() });
        let mut w = BitWriter::new();
        write_modular_header(&mut w, false, &wp, &chain, src);
        let tc = TreeCode { tree, code };
        write_tree_and_code(&mut w, &tc, src);
        tc.code.write_stream(&mut w, &ops, true);
        classes.push(format!("tree:{label}"));
        return (w, classes);
    }
    panic!("sub-stream could not be encoded");
}
