//! Modular transforms: channel-list bookkeeping, *forward* (encoder side)
//! RCT / palette / squeeze and their inverses (used for self-checks and by
//! reference models), from the format definition (H.6).

use super::predict::{neighbours, predict, Chan, WpParams, WpState};
use crate::src::Src;

#[derive(Clone, Debug, PartialEq)]
pub struct SqueezeStep {
    pub horizontal: bool,
    pub in_place: bool,
    pub begin_c: usize,
    pub num_c: usize,
}

#[derive(Clone, Debug, PartialEq)]
pub enum Transform {
    Rct { begin_c: usize, rct_type: u32 },
    Palette { begin_c: usize, num_c: usize, nb_colours: usize, nb_deltas: usize, d_pred: u32 },
    /// `explicit = false`: zero steps are signalled and the default sequence applies.
    Squeeze { steps: Vec<SqueezeStep>, explicit: bool },
}

#[derive(Debug)]
pub enum TxError {
    /// the transform cannot be applied to this channel list
    NotApplicable(&'static str),
    /// a value left the allowed sample range
    Range,
}

pub const DELTA_PALETTE: [[i32; 3]; 72] = [
    [0, 0, 0], [4, 4, 4], [11, 0, 0], [0, 0, -13], [0, -12, 0], [-10, -10, -10], [-18, -18, -18], [-27, -27, -27], [-18, -18, 0], [0, 0, -32], [-32, 0, 0], [-37, -37, -37],
    [0, -32, -32], [24, 24, 45], [50, 50, 50], [-45, -24, -24], [-24, -45, -45], [0, -24, -24], [-34, -34, 0], [-24, 0, -24], [-45, -45, -24], [64, 64, 64], [-32, 0, -32],
    [0, -32, 0], [-32, 0, 32], [-24, -45, -24], [45, 24, 45], [24, -24, -45], [-45, -24, 24], [80, 80, 80], [64, 0, 0], [0, 0, -64], [0, -64, -64], [-24, -24, 45], [96, 96, 96],
    [64, 64, 0], [45, -24, -24], [34, -34, 0], [112, 112, 112], [24, -45, -45], [45, 45, -24], [0, -32, 32], [24, -24, 45], [0, 96, 96], [45, -24, 24], [24, -45, -24],
    [-24, -45, 24], [0, -64, 0], [96, 0, 0], [128, 128, 128], [64, 0, 64], [144, 144, 144], [96, 96, 0], [-36, -36, 36], [45, -24, -45], [45, -45, -24], [0, 0, -96], [0, 128, 128],
    [0, 96, 0], [45, 24, -45], [-128, 0, 0], [24, -45, 24], [-45, 24, -45], [64, 0, -64], [64, -64, -64], [96, 0, 96], [45, -45, 24], [24, 45, -45], [64, 64, -64], [128, 128, 0],
    [0, 0, -128], [-24, 45, -45],
];

/// Sample-range policy: all intermediate values must lie within
/// `[-limit, limit)` (limit = 2^15 for narrow buffers, 2^31 otherwise).
#[derive(Clone, Copy, Debug)]
pub struct Range {
    pub limit: i64,
}

impl Range {
    pub fn ok(&self, v: i64) -> bool {
        v >= -self.limit && v < self.limit
    }
    /// narrow (16-bit) sample type: intermediates of inverse transforms are checked too
    pub fn narrow(&self) -> bool {
        self.limit <= 1 << 15
    }
}

// ---------------------------------------------------------------------------
// RCT

fn rct_perm(rct_type: u32) -> [usize; 3] {
    let perm = (rct_type / 7) as usize;
    [perm % 3, (perm + 1 + perm / 3) % 3, (perm + 2 - perm / 3) % 3]
}

/// Forward RCT in place on channels begin_c..begin_c+3.
pub fn rct_forward(ch: &mut [Chan], begin_c: usize, rct_type: u32, range: Range) -> Result<(), TxError> {
    if begin_c + 3 > ch.len() {
        return Err(TxError::NotApplicable("rct: not enough channels"));
    }
    if !(ch[begin_c].w == ch[begin_c + 1].w && ch[begin_c].w == ch[begin_c + 2].w && ch[begin_c].h == ch[begin_c + 1].h && ch[begin_c].h == ch[begin_c + 2].h) {
        return Err(TxError::NotApplicable("rct: channel sizes differ"));
    }
    let ty = rct_type % 7;
    let perm = rct_perm(rct_type);
    let n = ch[begin_c].data.len();
    for i in 0..n {
        // outputs of the inverse: V[perm[0]] = D, V[perm[1]] = E, V[perm[2]] = F
        let d = ch[begin_c + perm[0]].data[i] as i64;
        let e = ch[begin_c + perm[1]].data[i] as i64;
        let f = ch[begin_c + perm[2]].data[i] as i64;
        let (a, b, c);
        if ty == 6 {
            // inverse: tmp = A - (C >> 1); E = C + tmp; F = tmp - (B >> 1); D = F + B
            // forward (YCgCo-R): B = D - F; tmp = F + (B >> 1); C = E - tmp; A = tmp + (C >> 1)
            let bb = d - f;
            let tmp = f + (bb >> 1);
            let cc = e - tmp;
            let aa = tmp + (cc >> 1);
            a = aa;
            b = bb;
            c = cc;
        } else {
            let second = ty >> 1;
            let third = ty & 1;
            a = d;
            c = if third == 1 { f - a } else { f };
            b = match second {
                0 => e,
                1 => e - a,
                _ => e - ((a + f) >> 1),
            };
        }
        if !range.ok(a) || !range.ok(b) || !range.ok(c) {
            return Err(TxError::Range);
        }
        if range.narrow() {
            let inter = if ty == 6 { vec![a - (c >> 1), c + (a - (c >> 1)), (a - (c >> 1)) - (b >> 1)] } else { vec![a + f, c + a, b + a, b + ((a + f) >> 1)] };
            if inter.iter().any(|&v| !range.ok(v)) {
                return Err(TxError::Range);
            }
        }
        ch[begin_c].data[i] = a as i32;
        ch[begin_c + 1].data[i] = b as i32;
        ch[begin_c + 2].data[i] = c as i32;
    }
    Ok(())
}

pub fn rct_inverse(ch: &mut [Chan], begin_c: usize, rct_type: u32) {
    let ty = rct_type % 7;
    let perm = rct_perm(rct_type);
    let n = ch[begin_c].data.len();
    for i in 0..n {
        let a = ch[begin_c].data[i] as i64;
        let b = ch[begin_c + 1].data[i] as i64;
        let c = ch[begin_c + 2].data[i] as i64;
        let (d, e, f);
        if ty == 6 {
            let tmp = a - (c >> 1);
            e = c + tmp;
            f = tmp - (b >> 1);
            d = f + b;
        } else {
            let second = ty >> 1;
            let third = ty & 1;
            let mut cc = c;
            let mut bb = b;
            if third == 1 {
                cc = c + a;
            }
            if second == 1 {
                bb = b + a;
            } else if second == 2 {
                bb = b + ((a + cc) >> 1);
            }
            d = a;
            e = bb;
            f = cc;
        }
        let vals = [d, e, f];
        for k in 0..3 {
            ch[begin_c + perm[k]].data[i] = vals[k] as i32;
        }
    }
}

// ---------------------------------------------------------------------------
// Squeeze

fn smooth_tendency(b: i64, a: i64, n: i64) -> i64 {
    let mut diff = 0;
    if b >= a && a >= n {
        diff = (4 * b - 3 * n - a + 6) / 12;
        if diff - (diff & 1) > 2 * (b - a) {
            diff = 2 * (b - a) + 1;
        }
        if diff + (diff & 1) > 2 * (a - n) {
            diff = 2 * (a - n);
        }
    } else if b <= a && a <= n {
        diff = (4 * b - 3 * n - a - 6) / 12;
        if diff + (diff & 1) < 2 * (b - a) {
            diff = 2 * (b - a) - 1;
        }
        if diff - (diff & 1) < 2 * (a - n) {
            diff = 2 * (a - n);
        }
    }
    diff
}

/// Forward horizontal squeeze of one channel: returns (average, residual).
fn squeeze_h_forward(c: &Chan, range: Range) -> Result<(Chan, Chan), TxError> {
    let aw = (c.w + 1) / 2;
    let rw = c.w / 2;
    let mut avg = Chan::with_shift(aw, c.h, c.hshift, c.vshift);
    let mut res = Chan::with_shift(rw, c.h, c.hshift, c.vshift);
    for y in 0..c.h {
        for x in 0..rw {
            let a = c.at(2 * x, y) as i64;
            let b = c.at(2 * x + 1, y) as i64;
            avg.set(x, y, ((a + b + (a > b) as i64) >> 1) as i32);
        }
        if c.w & 1 == 1 {
            avg.set(rw, y, c.at(c.w - 1, y));
        }
        for x in 0..rw {
            let a = c.at(2 * x, y) as i64;
            let b = c.at(2 * x + 1, y) as i64;
            let av = avg.at(x, y) as i64;
            let next = if x + 1 < aw { avg.at(x + 1, y) as i64 } else { av };
            let left = if x > 0 { c.at(2 * x - 1, y) as i64 } else { av };
            let t = smooth_tendency(left, av, next);
            let r = (a - b) - t;
            if !range.ok(r) {
                return Err(TxError::Range);
            }
            if range.narrow() {
                // every intermediate of the inverse must fit the narrow sample type
                let inter = [4 * left - 3 * next - av + 6, 4 * left - 3 * next - av - 6, 4 * left, 3 * next, 2 * (left - av), 2 * (av - next), 2 * (left - av) + 1, 2 * (left - av) - 1, t, a - b, av + (a - b) / 2];
                if inter.iter().any(|&v| !range.ok(v)) {
                    return Err(TxError::Range);
                }
            }
            res.set(x, y, r as i32);
        }
    }
    Ok((avg, res))
}

fn squeeze_h_inverse(avg: &Chan, res: &Chan) -> Chan {
    let w = avg.w + res.w;
    let mut out = Chan::with_shift(w, avg.h, avg.hshift, avg.vshift);
    for y in 0..avg.h {
        for x in 0..res.w {
            let av = avg.at(x, y) as i64;
            let next = if x + 1 < avg.w { avg.at(x + 1, y) as i64 } else { av };
            let left = if x > 0 { out.at(2 * x - 1, y) as i64 } else { av };
            let diff = res.at(x, y) as i64 + smooth_tendency(left, av, next);
            let first = av + diff / 2;
            out.set(2 * x, y, first as i32);
            out.set(2 * x + 1, y, (first - diff) as i32);
        }
        if avg.w > res.w {
            out.set(2 * res.w, y, avg.at(res.w, y));
        }
    }
    out
}

fn transpose(c: &Chan) -> Chan {
    let mut t = Chan::with_shift(c.h, c.w, c.vshift, c.hshift);
    for y in 0..c.h {
        for x in 0..c.w {
            t.set(y, x, c.at(x, y));
        }
    }
    t
}

fn squeeze_forward_one(c: &Chan, horizontal: bool, range: Range) -> Result<(Chan, Chan), TxError> {
    if c.w == 0 || c.h == 0 {
        return Err(TxError::NotApplicable("squeeze: zero-sized channel"));
    }
    let (mut avg, mut res) = if horizontal {
        squeeze_h_forward(c, range)?
    } else {
        let (a, r) = squeeze_h_forward(&transpose(c), range)?;
        (transpose(&a), transpose(&r))
    };
    // shifts: only channels that can be shifted (shift >= 0) count them
    if horizontal {
        if c.hshift >= 0 {
            avg.hshift = c.hshift + 1;
            res.hshift = c.hshift + 1;
        }
        avg.vshift = c.vshift;
        res.vshift = c.vshift;
    } else {
        if c.vshift >= 0 {
            avg.vshift = c.vshift + 1;
            res.vshift = c.vshift + 1;
        }
        avg.hshift = c.hshift;
        res.hshift = c.hshift;
    }
    Ok((avg, res))
}

/// Default squeeze parameter sequence for a channel list.
pub fn default_squeeze_steps(ch: &[Chan], nb_meta: usize) -> Vec<SqueezeStep> {
    let mut steps = vec![];
    let first = nb_meta;
    if first >= ch.len() {
        return steps;
    }
    let count = ch.len() - first;
    let mut w = ch[first].w;
    let mut h = ch[first].h;
    if count > 2 && ch[first + 1].w == w && ch[first + 1].h == h {
        steps.push(SqueezeStep { horizontal: true, in_place: false, begin_c: first + 1, num_c: 2 });
        steps.push(SqueezeStep { horizontal: false, in_place: false, begin_c: first + 1, num_c: 2 });
    }
    if h >= w && h > 8 {
        steps.push(SqueezeStep { horizontal: false, in_place: true, begin_c: first, num_c: count });
        h = (h + 1) / 2;
    }
    while w > 8 || h > 8 {
        if w > 8 {
            steps.push(SqueezeStep { horizontal: true, in_place: true, begin_c: first, num_c: count });
            w = (w + 1) / 2;
        }
        if h > 8 {
            steps.push(SqueezeStep { horizontal: false, in_place: true, begin_c: first, num_c: count });
            h = (h + 1) / 2;
        }
    }
    steps
}

pub fn squeeze_forward(ch: &mut Vec<Chan>, nb_meta: &mut usize, steps: &[SqueezeStep], range: Range) -> Result<(), TxError> {
    for s in steps {
        let end = s.begin_c + s.num_c;
        if end > ch.len() {
            return Err(TxError::NotApplicable("squeeze: channel range"));
        }
        if s.begin_c < *nb_meta {
            if !s.in_place || end > *nb_meta {
                return Err(TxError::NotApplicable("squeeze: meta channel rules"));
            }
            *nb_meta += s.num_c;
        }
        let mut residuals = vec![];
        for c in s.begin_c..end {
            if ch[c].hshift > 30 || ch[c].vshift > 30 {
                return Err(TxError::NotApplicable("squeeze: too deep"));
            }
            let (avg, res) = squeeze_forward_one(&ch[c], s.horizontal, range)?;
            ch[c] = avg;
            residuals.push(res);
        }
        if s.in_place {
            let tail: Vec<Chan> = ch.drain(end..).collect();
            ch.extend(residuals);
            ch.extend(tail);
        } else {
            ch.extend(residuals);
        }
    }
    Ok(())
}

pub fn squeeze_inverse(ch: &mut Vec<Chan>, steps: &[SqueezeStep]) {
    for s in steps.iter().rev() {
        let end = s.begin_c + s.num_c;
        let residuals: Vec<Chan> = if s.in_place { ch.drain(end..end + s.num_c).collect() } else { ch.drain(ch.len() - s.num_c..).collect() };
        for (k, r) in residuals.into_iter().enumerate() {
            let c = s.begin_c + k;
            let merged = if s.horizontal {
                squeeze_h_inverse(&ch[c], &r)
            } else {
                transpose(&squeeze_h_inverse(&transpose(&ch[c]), &transpose(&r)))
            };
            let mut merged = merged;
            // undo shift bookkeeping
            if s.horizontal {
                merged.hshift = if ch[c].hshift > 0 { ch[c].hshift - 1 } else { ch[c].hshift };
                merged.vshift = ch[c].vshift;
            } else {
                merged.vshift = if ch[c].vshift > 0 { ch[c].vshift - 1 } else { ch[c].vshift };
                merged.hshift = ch[c].hshift;
            }
            ch[c] = merged;
        }
    }
}

// ---------------------------------------------------------------------------
// Palette

/// Value of an implicit (index >= nb_colours) palette entry for channel `c`.
pub fn implicit_colour(index: i64, c: usize, bit_depth: u32) -> i64 {
    let maxv = (1i64 << bit_depth) - 1;
    if index < 64 {
        ((index >> (2 * c)) % 4) * maxv / 4 + (1i64 << bit_depth.saturating_sub(3))
    } else {
        let mut idx = index - 64;
        for _ in 0..c {
            idx /= 5;
        }
        (idx % 5) * maxv / 4
    }
}

/// Value of an implicit delta entry (index < 0) for channel `c` (< 3).
pub fn implicit_delta(index: i64, c: usize, bit_depth: u32) -> i64 {
    if c >= 3 {
        return 0;
    }
    let idx = (-(index + 1)) % 143;
    let mut v = DELTA_PALETTE[((idx + 1) >> 1) as usize][c] as i64;
    if idx & 1 == 0 {
        v = -v;
    }
    if bit_depth > 8 {
        v <<= bit_depth.min(24) - 8;
    }
    v
}

pub struct PaletteOpts {
    pub max_colours: usize,
    pub d_pred: u32,
    pub use_deltas: bool,
    pub use_implicit: bool,
    pub bit_depth: u32,
}

/// Forward palette on channels begin_c..begin_c+num_c.  Builds the palette
/// from the image (explicit colours, generated delta entries, implicit
/// entries where they happen to apply) so that the inverse reproduces the
/// channels exactly.  Returns the transform description.
#[allow(clippy::too_many_arguments)]
pub fn palette_forward(ch: &mut Vec<Chan>, nb_meta: &mut usize, begin_c: usize, num_c: usize, opts: &PaletteOpts, wp: &WpParams, range: Range, src: &mut Src) -> Result<Transform, TxError> {
    let end_c = begin_c + num_c;
    if num_c == 0 || end_c > ch.len() {
        return Err(TxError::NotApplicable("palette: channel range"));
    }
    if begin_c < *nb_meta && end_c > *nb_meta {
        return Err(TxError::NotApplicable("palette: straddles meta channels"));
    }
    let (w, h) = (ch[begin_c].w, ch[begin_c].h);
    for c in begin_c + 1..end_c {
        if ch[c].w != w || ch[c].h != h {
            return Err(TxError::NotApplicable("palette: channel sizes differ"));
        }
    }
    let bd = opts.bit_depth;
    // delta entries: harvested from (value - prediction) vectors at generated pixels
    let use_deltas = opts.use_deltas && w * h > 0;
    let use_implicit = opts.use_implicit && num_c <= 3 && bd <= 24;
    let mut deltas: Vec<Vec<i64>> = vec![];
    let mut colours: Vec<Vec<i64>> = vec![];
    let mut colour_index: std::collections::HashMap<Vec<i64>, usize> = std::collections::HashMap::new();
    // first pass: decide per pixel how it is represented
    #[derive(Clone, Copy)]
    enum Rep {
        Colour(usize),
        Delta(usize),
        Implicit(i64),
        ImplicitDelta(i64),
    }
    let mut reps: Vec<Rep> = Vec::with_capacity(w * h);
    let mut wps: Vec<WpState> = (0..num_c).map(|_| WpState::new(w, wp)).collect();
    for y in 0..h {
        for x in 0..w {
            let val: Vec<i64> = (0..num_c).map(|c| ch[begin_c + c].at(x, y) as i64).collect();
            // predictions from the *original* channels (they equal the reconstruction)
            let mut preds = vec![0i64; num_c];
            for c in 0..num_c {
                let nb = neighbours(&ch[begin_c + c], x, y);
                let wp_pred = if opts.d_pred == 6 { wps[c].predict(x, y, &nb).0 } else { 0 };
                preds[c] = predict(opts.d_pred, &nb, wp_pred);
            }
            let diff: Vec<i64> = (0..num_c).map(|c| val[c] - preds[c]).collect();
            let mut rep = None;
            if use_deltas {
                if let Some(k) = deltas.iter().position(|d| *d == diff) {
                    if src.chance(200) {
                        rep = Some(Rep::Delta(k));
                    }
                }
                if rep.is_none() && num_c <= 3 && bd <= 24 && src.chance(64) {
                    // implicit delta entry that happens to fit?
                    for idx in 0..143i64 {
                        let index = -(idx + 1);
                        if (0..num_c).all(|c| implicit_delta(index, c, bd) == diff[c]) {
                            // any index congruent mod 143 works
                            let k = if src.chance(64) { src.range(0, 3) as i64 } else { 0 };
                            rep = Some(Rep::ImplicitDelta(index - 143 * k));
                            break;
                        }
                    }
                }
                if rep.is_none() && deltas.len() < 40 && src.chance(24) && !colour_index.contains_key(&val) {
                    deltas.push(diff.clone());
                    rep = Some(Rep::Delta(deltas.len() - 1));
                }
            }
            if rep.is_none() && use_implicit && src.chance(128) {
                // does an implicit colour match?
                let first = src.range(0, 64 + 124) as i64;
                for t in 0..(64 + 125) {
                    let index = (first + t) % (64 + 125);
                    if (0..num_c).all(|c| implicit_colour(index, c, bd) == val[c]) {
                        rep = Some(Rep::Implicit(index));
                        break;
                    }
                }
            }
            let rep = match rep {
                Some(r) => r,
                None => {
                    let k = match colour_index.get(&val) {
                        Some(&k) => k,
                        None => {
                            if colours.len() >= opts.max_colours {
                                return Err(TxError::NotApplicable("palette: too many colours"));
                            }
                            colours.push(val.clone());
                            colour_index.insert(val.clone(), colours.len() - 1);
                            colours.len() - 1
                        }
                    };
                    Rep::Colour(k)
                }
            };
            reps.push(rep);
            if opts.d_pred == 6 {
                for c in 0..num_c {
                    wps[c].update(x, y, val[c]);
                }
            }
        }
    }
    // optionally add unused colours / reorder colours
    if src.chance(48) && colours.len() < opts.max_colours {
        for _ in 0..src.range(1, 3) {
            colours.push((0..num_c).map(|_| src.range(0, (1u64 << bd.min(16)) - 1) as i64).collect());
        }
    }
    let nb_deltas = deltas.len();
    let nb_colours = nb_deltas + colours.len();
    // a palette with zero entries is legal (all pixels implicit); keep at least... nothing required
    let mut perm: Vec<usize> = (0..colours.len()).collect();
    if src.chance(100) {
        for i in (1..perm.len()).rev() {
            let j = src.below(i + 1);
            perm.swap(i, j);
        }
    }
    // perm[new] = old ; inverse map old -> new
    let mut inv = vec![0usize; perm.len()];
    for (new, &old) in perm.iter().enumerate() {
        inv[old] = new;
    }
    let mut meta = Chan::with_shift(nb_colours, num_c, -1, -1);
    for (k, d) in deltas.iter().enumerate() {
        for c in 0..num_c {
            if !range.ok(d[c]) {
                return Err(TxError::Range);
            }
            meta.set(k, c, d[c] as i32);
        }
    }
    for (new, &old) in perm.iter().enumerate() {
        for c in 0..num_c {
            meta.set(nb_deltas + new, c, colours[old][c] as i32);
        }
    }
    let mut index = Chan::with_shift(w, h, ch[begin_c].hshift, ch[begin_c].vshift);
    for (i, r) in reps.iter().enumerate() {
        let v: i64 = match *r {
            Rep::Colour(k) => (nb_deltas + inv[k]) as i64,
            Rep::Delta(k) => k as i64,
            Rep::Implicit(idx) => nb_colours as i64 + idx,
            Rep::ImplicitDelta(idx) => idx,
        };
        if !range.ok(v) {
            return Err(TxError::Range);
        }
        index.data[i] = v as i32;
    }
    // channel list surgery
    if begin_c < *nb_meta {
        *nb_meta = *nb_meta + 2 - num_c;
    } else {
        *nb_meta += 1;
    }
    ch[begin_c] = index;
    ch.drain(begin_c + 1..end_c);
    ch.insert(0, meta);
    Ok(Transform::Palette { begin_c, num_c, nb_colours, nb_deltas, d_pred: opts.d_pred })
}

#[allow(clippy::too_many_arguments)]
pub fn palette_inverse(ch: &mut Vec<Chan>, begin_c: usize, num_c: usize, nb_colours: usize, nb_deltas: usize, d_pred: u32, wp: &WpParams, bit_depth: u32) {
    let meta = ch.remove(0);
    let index = ch[begin_c].clone();
    let (w, h) = (index.w, index.h);
    let mut outs: Vec<Chan> = (0..num_c).map(|_| Chan::with_shift(w, h, index.hshift, index.vshift)).collect();
    let mut wps: Vec<WpState> = (0..num_c).map(|_| WpState::new(w, wp)).collect();
    for y in 0..h {
        for x in 0..w {
            let idx = index.at(x, y) as i64;
            for c in 0..num_c {
                let mut v = if idx >= 0 && (idx as usize) < nb_colours {
                    meta.at(idx as usize, c) as i64
                } else if idx >= nb_colours as i64 {
                    implicit_colour(idx - nb_colours as i64, c, bit_depth)
                } else {
                    implicit_delta(idx, c, bit_depth)
                };
                let nb = neighbours(&outs[c], x, y);
                let wp_pred = if d_pred == 6 { wps[c].predict(x, y, &nb).0 } else { 0 };
                if idx < nb_deltas as i64 {
                    v += predict(d_pred, &nb, wp_pred);
                }
                outs[c].set(x, y, v as i32);
                if d_pred == 6 {
                    wps[c].update(x, y, v);
                }
            }
        }
    }
    ch.remove(begin_c);
    for (k, o) in outs.into_iter().enumerate() {
        ch.insert(begin_c + k, o);
    }
}

/// Applies the inverse of a whole transform chain (reference decoder side).
pub fn inverse_chain(ch: &mut Vec<Chan>, chain: &[Transform], wp: &WpParams, bit_depth: u32) {
    for t in chain.iter().rev() {
        match t {
            Transform::Rct { begin_c, rct_type } => rct_inverse(ch, *begin_c, *rct_type),
            Transform::Palette { begin_c, num_c, nb_colours, nb_deltas, d_pred } => palette_inverse(ch, *begin_c, *num_c, *nb_colours, *nb_deltas, *d_pred, wp, bit_depth),
            Transform::Squeeze { steps, .. } => squeeze_inverse(ch, steps),
        }
    }
}
