//! Modular mode, writer side.
pub mod encode;
pub mod predict;
pub mod transform;
pub mod tree;
