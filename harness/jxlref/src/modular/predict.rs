//! Modular prediction: neighbourhood, the 14 predictors, the weighted
//! ("self-correcting") predictor and the property vector, written from the
//! format definition (ISO/IEC 18181-1, H.3-H.5).  All arithmetic is carried in
//! i64; callers check that results fit the 32-bit sample type.

#[derive(Clone, Debug, PartialEq)]
pub struct Chan {
    pub w: usize,
    pub h: usize,
    pub hshift: i32,
    pub vshift: i32,
    pub data: Vec<i32>,
}

impl Chan {
    pub fn new(w: usize, h: usize) -> Self {
        Chan { w, h, hshift: 0, vshift: 0, data: vec![0; w * h] }
    }
    pub fn with_shift(w: usize, h: usize, hshift: i32, vshift: i32) -> Self {
        Chan { w, h, hshift, vshift, data: vec![0; w * h] }
    }
    #[inline]
    pub fn at(&self, x: usize, y: usize) -> i32 {
        self.data[y * self.w + x]
    }
    #[inline]
    pub fn set(&mut self, x: usize, y: usize, v: i32) {
        self.data[y * self.w + x] = v;
    }
    pub fn same_layout(&self, o: &Chan) -> bool {
        self.w == o.w && self.h == o.h && self.hshift == o.hshift && self.vshift == o.vshift
    }
    /// Extract a rectangle (clipped to the channel).
    pub fn crop(&self, x0: usize, y0: usize, w: usize, h: usize) -> Chan {
        let x1 = (x0 + w).min(self.w);
        let y1 = (y0 + h).min(self.h);
        // keep the non-empty dimension of a degenerate rectangle: a zero-height channel still has a width
        // (it counts for the LZ77 distance multiplier of its stream)
        let (cw, ch) = (x1.saturating_sub(x0), y1.saturating_sub(y0));
        let mut c = Chan::with_shift(cw, ch, self.hshift, self.vshift);
        for y in 0..ch {
            for x in 0..cw {
                c.data[y * cw + x] = self.at(x0 + x, y0 + y);
            }
        }
        c
    }
    pub fn paste(&mut self, x0: usize, y0: usize, src: &Chan) {
        for y in 0..src.h {
            for x in 0..src.w {
                self.set(x0 + x, y0 + y, src.at(x, y));
            }
        }
    }
}

#[derive(Clone, Copy, Debug, Default)]
pub struct Nb {
    pub w: i64,
    pub n: i64,
    pub nw: i64,
    pub ne: i64,
    pub nn: i64,
    pub nee: i64,
    pub ww: i64,
}

pub fn neighbours(c: &Chan, x: usize, y: usize) -> Nb {
    let p = |x: usize, y: usize| c.at(x, y) as i64;
    let w = if x > 0 {
        p(x - 1, y)
    } else if y > 0 {
        p(x, y - 1)
    } else {
        0
    };
    let n = if y > 0 { p(x, y - 1) } else { w };
    let nw = if x > 0 && y > 0 { p(x - 1, y - 1) } else { w };
    let ne = if x + 1 < c.w && y > 0 { p(x + 1, y - 1) } else { n };
    let nn = if y > 1 { p(x, y - 2) } else { n };
    let nee = if x + 2 < c.w && y > 0 { p(x + 2, y - 1) } else { ne };
    let ww = if x > 1 { p(x - 2, y) } else { w };
    Nb { w, n, nw, ne, nn, nee, ww }
}

#[derive(Clone, Debug, PartialEq)]
pub struct WpParams {
    pub p1: i64,
    pub p2: i64,
    pub p3: [i64; 5],
    pub w: [u32; 4],
}

impl Default for WpParams {
    fn default() -> Self {
        WpParams { p1: 16, p2: 10, p3: [7, 7, 7, 0, 0], w: [13, 12, 12, 12] }
    }
}

/// Weighted predictor state, as the definition lays it out: two rows of
/// per-pixel true errors and four sub-predictor error accumulators.
pub struct WpState {
    xsize: usize,
    params: WpParams,
    error: Vec<i32>,
    pred_errors: [Vec<u32>; 4],
    // results of the last `predict`
    prediction: [i64; 4],
    pred: i64,
}

fn floor_log2_u64(v: u64) -> u32 {
    63 - v.leading_zeros()
}

fn div_lookup(i: u32) -> u64 {
    // (1 << 24) / (i + 1)
    (1u64 << 24) / (i as u64 + 1)
}

fn error_weight(x: u32, maxweight: u32) -> u32 {
    let shift = (floor_log2_u64(x as u64 + 1) as i32 - 5).max(0) as u32;
    4 + ((maxweight as u64 * div_lookup(x >> shift)) >> shift) as u32
}

impl WpState {
    pub fn new(xsize: usize, params: &WpParams) -> Self {
        let n = (xsize + 2) * 2;
        WpState { xsize, params: params.clone(), error: vec![0; n], pred_errors: [vec![0; n], vec![0; n], vec![0; n], vec![0; n]], prediction: [0; 4], pred: 0 }
    }

    /// Returns (prediction in 1/8 units, max_error property).
    pub fn predict(&mut self, x: usize, y: usize, nb: &Nb) -> (i64, i64) {
        let xs = self.xsize;
        let (cur_row, prev_row) = if y & 1 == 1 { (0, xs + 2) } else { (xs + 2, 0) };
        let pos_n = prev_row + x;
        let pos_ne = if x + 1 < xs { pos_n + 1 } else { pos_n };
        let pos_nw = if x > 0 { pos_n - 1 } else { pos_n };
        let mut weights = [0u32; 4];
        for i in 0..4 {
            let s = self.pred_errors[i][pos_n].wrapping_add(self.pred_errors[i][pos_ne]).wrapping_add(self.pred_errors[i][pos_nw]);
            weights[i] = error_weight(s, self.params.w[i]);
        }
        let n = nb.n << 3;
        let w = nb.w << 3;
        let ne = nb.ne << 3;
        let nw = nb.nw << 3;
        let nn = nb.nn << 3;
        let te_w = if x == 0 { 0 } else { self.error[cur_row + x - 1] as i64 };
        let te_n = self.error[pos_n] as i64;
        let te_nw = self.error[pos_nw] as i64;
        let sum_wn = te_n + te_w;
        let te_ne = self.error[pos_ne] as i64;
        let mut p = te_w;
        if te_n.abs() > p.abs() {
            p = te_n;
        }
        if te_nw.abs() > p.abs() {
            p = te_nw;
        }
        if te_ne.abs() > p.abs() {
            p = te_ne;
        }
        let pr = &self.params;
        self.prediction[0] = w + ne - n;
        self.prediction[1] = n - (((sum_wn + te_ne) * pr.p1) >> 5);
        self.prediction[2] = w - (((sum_wn + te_nw) * pr.p2) >> 5);
        self.prediction[3] = n - ((te_nw * pr.p3[0] + te_n * pr.p3[1] + te_ne * pr.p3[2] + (nn - n) * pr.p3[3] + (nw - w) * pr.p3[4]) >> 5);
        // weighted average
        let mut weight_sum: u32 = weights.iter().sum();
        let log_weight = floor_log2_u64(weight_sum as u64);
        for wgt in &mut weights {
            *wgt >>= log_weight - 4;
        }
        weight_sum = weights.iter().sum();
        let mut sum = (weight_sum as i64 >> 1) - 1;
        for i in 0..4 {
            sum += self.prediction[i] * weights[i] as i64;
        }
        let mut pred = (sum * div_lookup(weight_sum - 1) as i64) >> 24;
        if ((te_n ^ te_w) | (te_n ^ te_nw)) <= 0 {
            let mx = w.max(ne).max(n);
            let mn = w.min(ne).min(n);
            pred = pred.clamp(mn, mx);
        }
        self.pred = pred;
        (pred, p)
    }

    /// Must follow the `predict` for the same pixel.
    pub fn update(&mut self, x: usize, y: usize, val: i64) {
        let xs = self.xsize;
        let (cur_row, prev_row) = if y & 1 == 1 { (0, xs + 2) } else { (xs + 2, 0) };
        let val = val << 3;
        self.error[cur_row + x] = (self.pred - val) as i32;
        for i in 0..4 {
            let err = (((self.prediction[i] - val).unsigned_abs() + 3) >> 3) as u32;
            self.pred_errors[i][cur_row + x] = err;
            let k = prev_row + x + 1;
            self.pred_errors[i][k] = self.pred_errors[i][k].wrapping_add(err);
        }
    }
}

/// Result of evaluating predictor `id` (0..=13).  `wp_pred` is the weighted
/// prediction in 1/8 units (needed for id 6).
pub fn predict(id: u32, nb: &Nb, wp_pred: i64) -> i64 {
    let Nb { w, n, nw, ne, nn, nee, ww } = *nb;
    match id {
        0 => 0,
        1 => w,
        2 => n,
        3 => (w + n) / 2,
        4 => {
            // Select
            if (n - nw).abs() < (w - nw).abs() {
                w
            } else {
                n
            }
        }
        5 => (n + w - nw).clamp(w.min(n), w.max(n)),
        6 => (wp_pred + 3) >> 3,
        7 => ne,
        8 => nw,
        9 => ww,
        10 => (w + nw) / 2,
        11 => (n + nw) / 2,
        12 => (n + ne) / 2,
        13 => (6 * n - 2 * nn + 7 * w + ww + nee + 3 * ne + 8) / 16,
        _ => panic!("unknown predictor {id}"),
    }
}

/// Properties 0..=15 (`prev9` = value of property 9 at the pixel to the left,
/// 0 at the start of a row) followed by 4 per previous channel.
#[allow(clippy::too_many_arguments)]
pub fn properties(chan_idx: usize, stream_idx: u32, x: usize, y: usize, nb: &Nb, prev9: i64, wp_max_error: i64, prev: &[&Chan], n_extra: usize) -> Vec<i64> {
    let mut p = Vec::with_capacity(16 + 4 * n_extra);
    p.push(chan_idx as i64);
    p.push(stream_idx as i64);
    p.push(y as i64);
    p.push(x as i64);
    p.push(nb.n.abs());
    p.push(nb.w.abs());
    p.push(nb.n);
    p.push(nb.w);
    p.push(if x > 0 { nb.w - prev9 } else { nb.w });
    p.push(nb.w + nb.n - nb.nw);
    p.push(nb.w - nb.nw);
    p.push(nb.nw - nb.n);
    p.push(nb.n - nb.ne);
    p.push(nb.n - nb.nn);
    p.push(nb.w - nb.ww);
    p.push(wp_max_error);
    for k in 0..n_extra {
        if let Some(pc) = prev.get(k) {
            let rc = pc.at(x, y) as i64;
            let rw = if x > 0 { pc.at(x - 1, y) as i64 } else { 0 };
            let rn = if y > 0 { pc.at(x, y - 1) as i64 } else { rw };
            let rnw = if x > 0 && y > 0 { pc.at(x - 1, y - 1) as i64 } else { rw };
            let rg = (rw + rn - rnw).clamp(rw.min(rn), rw.max(rn));
            p.push(rc.abs());
            p.push(rc);
            p.push((rc - rg).abs());
            p.push(rc - rg);
        } else {
            p.extend_from_slice(&[0, 0, 0, 0]);
        }
    }
    p
}
