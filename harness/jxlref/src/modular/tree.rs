//! Meta-adaptive trees: representation, generation (valid by construction),
//! breadth-first serialisation and lookup.

use crate::bits::pack_signed;
use crate::entropy::Op;
use crate::src::Src;

#[derive(Clone, Debug)]
pub enum Node {
    Decision { property: u32, value: i32, left: Box<Node>, right: Box<Node> },
    Leaf(Leaf),
}

#[derive(Clone, Debug, PartialEq)]
pub struct Leaf {
    /// context id = position among the leaves in breadth-first order (filled by `number`)
    pub ctx: u32,
    pub predictor: u32,
    pub offset: i32,
    pub mul_log: u32,
    pub mul_bits: u32,
}

impl Leaf {
    pub fn multiplier(&self) -> i64 {
        ((self.mul_bits as i64) + 1) << self.mul_log
    }
}

#[derive(Clone, Debug)]
pub struct Tree {
    pub root: Node,
    pub num_leaves: u32,
}

impl Tree {
    pub fn new(mut root: Node) -> Tree {
        // number the leaves in breadth-first order
        let mut n = 0;
        {
            let mut q: std::collections::VecDeque<&mut Node> = std::collections::VecDeque::new();
            q.push_back(&mut root);
            while let Some(node) = q.pop_front() {
                match node {
                    Node::Decision { left, right, .. } => {
                        q.push_back(left);
                        q.push_back(right);
                    }
                    Node::Leaf(l) => {
                        l.ctx = n;
                        n += 1;
                    }
                }
            }
        }
        Tree { root, num_leaves: n }
    }

    pub fn single(predictor: u32) -> Tree {
        Tree::new(Node::Leaf(Leaf { ctx: 0, predictor, offset: 0, mul_log: 0, mul_bits: 0 }))
    }

    /// `props[p]` for p beyond the slice evaluates to 0.
    pub fn lookup(&self, props: &[i64]) -> &Leaf {
        let mut n = &self.root;
        loop {
            match n {
                Node::Decision { property, value, left, right } => {
                    let v = props.get(*property as usize).copied().unwrap_or(0);
                    n = if v > *value as i64 { left } else { right };
                }
                Node::Leaf(l) => return l,
            }
        }
    }

    pub fn for_each_node(&self, mut f: impl FnMut(&Node)) {
        let mut q = std::collections::VecDeque::new();
        q.push_back(&self.root);
        while let Some(n) = q.pop_front() {
            f(n);
            if let Node::Decision { left, right, .. } = n {
                q.push_back(left);
                q.push_back(right);
            }
        }
    }

    pub fn uses_wp(&self) -> bool {
        let mut u = false;
        self.for_each_node(|n| match n {
            Node::Decision { property, .. } if *property == 15 => u = true,
            Node::Leaf(l) if l.predictor == 6 => u = true,
            _ => {}
        });
        u
    }

    pub fn max_property(&self) -> u32 {
        let mut m = 0;
        self.for_each_node(|n| {
            if let Node::Decision { property, .. } = n {
                m = m.max(*property);
            }
        });
        m
    }

    pub fn used_properties(&self) -> Vec<u32> {
        let mut v = vec![];
        self.for_each_node(|n| {
            if let Node::Decision { property, .. } = n {
                if !v.contains(property) {
                    v.push(*property);
                }
            }
        });
        v
    }

    pub fn all_multipliers_one(&self) -> bool {
        let mut ok = true;
        self.for_each_node(|n| {
            if let Node::Leaf(l) = n {
                if l.multiplier() != 1 {
                    ok = false;
                }
            }
        });
        ok
    }

    pub fn num_nodes(&self) -> usize {
        let mut n = 0;
        self.for_each_node(|_| n += 1);
        n
    }

    /// Token stream (6 contexts) describing the tree, breadth first.
    pub fn ops(&self) -> Vec<Op> {
        let mut ops = vec![];
        self.for_each_node(|n| match n {
            Node::Decision { property, value, .. } => {
                ops.push(Op::Lit { ctx: 1, value: property + 1 });
                ops.push(Op::Lit { ctx: 0, value: pack_signed(*value) });
            }
            Node::Leaf(l) => {
                ops.push(Op::Lit { ctx: 1, value: 0 });
                ops.push(Op::Lit { ctx: 2, value: l.predictor });
                ops.push(Op::Lit { ctx: 3, value: pack_signed(l.offset) });
                ops.push(Op::Lit { ctx: 4, value: l.mul_log });
                ops.push(Op::Lit { ctx: 5, value: l.mul_bits });
            }
        });
        ops
    }
}

/// What the generator knows about the (sub)images a tree will be used for.
#[derive(Clone, Debug)]
pub struct TreeGenCtx {
    pub max_channels: usize,
    pub stream_indices: Vec<u32>,
    pub max_w: usize,
    pub max_h: usize,
    /// typical sample magnitude (for decision thresholds and offsets)
    pub amplitude: i64,
    /// number of previous channels that may exist
    pub max_prev: usize,
    pub allow_multiplier: bool,
    pub max_nodes: usize,
}

fn gen_leaf(src: &mut Src, g: &TreeGenCtx, pred_pool: &[u32]) -> Node {
    let predictor = pred_pool[src.below(pred_pool.len())];
    let offset = match src.weighted(&[6, 2, 1]) {
        0 => 0,
        1 => src.range_i(-3, 3) as i32,
        _ => src.range_i(-g.amplitude.min(1 << 20), g.amplitude.min(1 << 20)) as i32,
    };
    let (mul_log, mul_bits) = if g.allow_multiplier && src.chance(40) {
        match src.below(3) {
            0 => (src.range(0, 3) as u32, 0),
            1 => (0, src.range(0, 6) as u32),
            _ => (src.range(0, 4) as u32, src.range(0, 3) as u32),
        }
    } else {
        (0, 0)
    };
    Node::Leaf(Leaf { ctx: 0, predictor, offset, mul_log, mul_bits })
}

fn gen_threshold(src: &mut Src, g: &TreeGenCtx, property: u32, lo: i64, hi: i64) -> Option<i32> {
    // must satisfy lo <= v < hi
    if lo >= hi {
        return None;
    }
    let a = g.amplitude.max(1);
    let cand: i64 = match property {
        0 => src.range_i(0, g.max_channels.max(1) as i64 - 1),
        1 => {
            let s = g.stream_indices[src.below(g.stream_indices.len())] as i64;
            s - src.range(0, 1) as i64
        }
        2 => src.range_i(0, g.max_h.max(1) as i64 - 1),
        3 => src.range_i(0, g.max_w.max(1) as i64 - 1),
        4 | 5 => src.range_i(0, a),
        15 => src.range_i(-a * 8, a * 8),
        _ => match src.weighted(&[4, 2, 1]) {
            0 => src.range_i(-4, 4),
            1 => src.range_i(-a, a),
            _ => src.range_i(-a * 2 - 5, a * 2 + 5),
        },
    };
    let v = cand.clamp(lo, hi - 1);
    Some(v as i32)
}

fn gen_subtree(src: &mut Src, g: &TreeGenCtx, depth: u32, budget: &mut usize, bounds: &mut Vec<(i64, i64)>, prop_pool: &[u32], pred_pool: &[u32]) -> Node {
    if depth == 0 || *budget < 3 || src.chance(70) {
        return gen_leaf(src, g, pred_pool);
    }
    let property = prop_pool[src.below(prop_pool.len())];
    if bounds.len() <= property as usize {
        bounds.resize(property as usize + 1, (i32::MIN as i64, i32::MAX as i64));
    }
    let (lo, hi) = bounds[property as usize];
    let Some(value) = gen_threshold(src, g, property, lo, hi) else {
        return gen_leaf(src, g, pred_pool);
    };
    *budget -= 2;
    // left: property > value
    bounds[property as usize] = (value as i64 + 1, hi);
    let left = gen_subtree(src, g, depth - 1, budget, bounds, prop_pool, pred_pool);
    bounds[property as usize] = (lo, value as i64);
    let right = gen_subtree(src, g, depth - 1, budget, bounds, prop_pool, pred_pool);
    bounds[property as usize] = (lo, hi);
    Node::Decision { property, value, left: Box::new(left), right: Box::new(right) }
}

/// A chain of decisions on one property producing >= `n` ranges (the shape a
/// decoder may compile into a lookup table).
fn gen_chain(src: &mut Src, g: &TreeGenCtx, property: u32, n: usize, uniform: Option<(u32, i32)>, pred_pool: &[u32]) -> Node {
    // thresholds ascending
    let mut t: Vec<i32> = vec![];
    let mut v = -(n as i64) / 2 * src.range(1, 3) as i64 + src.range_i(-3, 3);
    for _ in 0..n {
        t.push(v as i32);
        let hi = if src.chance(40) { 40 } else { 4 };
        v += src.range(1, hi) as i64;
    }
    // build as a balanced or skewed comparison tree over sorted thresholds
    fn build(src: &mut Src, g: &TreeGenCtx, property: u32, t: &[i32], uniform: Option<(u32, i32)>, pred_pool: &[u32], skew: bool) -> Node {
        if t.is_empty() {
            return match uniform {
                Some((p, off)) => Node::Leaf(Leaf { ctx: 0, predictor: p, offset: off, mul_log: 0, mul_bits: 0 }),
                None => gen_leaf(src, g, pred_pool),
            };
        }
        let mid = if skew { 0 } else { t.len() / 2 };
        // values > t[mid] go left
        let left = build(src, g, property, &t[mid + 1..], uniform, pred_pool, skew);
        let right = build(src, g, property, &t[..mid], uniform, pred_pool, skew);
        Node::Decision { property, value: t[mid], left: Box::new(left), right: Box::new(right) }
    }
    let skew = src.bool();
    build(src, g, property, &t, uniform, pred_pool, skew)
}

pub const ALL_PREDICTORS: [u32; 14] = [0, 1, 2, 3, 4, 5, 6, 7, 8, 9, 10, 11, 12, 13];

/// Generates a tree; returns it with a label of its shape class.
pub fn gen_tree(src: &mut Src, g: &TreeGenCtx) -> (Tree, &'static str) {
    let class = src.weighted(&[3, 1, 2, 2, 2, 5, 3]);
    let mut props: Vec<u32> = (0..16).collect();
    for k in 0..(g.max_prev + 1) * 4 {
        props.push(16 + k as u32);
    }
    let (root, label) = match class {
        0 => (gen_leaf(src, g, &ALL_PREDICTORS), "single-leaf"),
        1 => (Node::Leaf(Leaf { ctx: 0, predictor: 0, offset: if src.bool() { 0 } else { src.range_i(-5, 5) as i32 }, mul_log: 0, mul_bits: 0 }), "single-leaf-zero"),
        2 => (Node::Leaf(Leaf { ctx: 0, predictor: 5, offset: 0, mul_log: 0, mul_bits: 0 }), "single-leaf-gradient"),
        3 => {
            let n = src.range(3, 12) as usize;
            (gen_chain(src, g, 9, n, Some((5, 0)), &ALL_PREDICTORS), "prop9-gradient-table")
        }
        4 => {
            let p = src.pick(&[2u32, 3, 4, 5, 6, 7, 8, 9, 10, 11, 12, 13, 14, 15, 16, 17, 19]);
            let n = src.range(3, 10) as usize;
            let uniform = if src.bool() { Some((src.pick(&ALL_PREDICTORS), if src.bool() { 0 } else { src.range_i(-2, 2) as i32 })) } else { None };
            (gen_chain(src, g, p, n, uniform, &ALL_PREDICTORS), if uniform.is_some() { "chain-uniform-leaves" } else { "chain-mixed-leaves" })
        }
        5 => {
            let mut budget = g.max_nodes.min(src.range(3, 61) as usize);
            let mut bounds = vec![];
            let depth = src.range(1, 6) as u32;
            // restrict property pool for some trees so decisions repeat on the same property
            let pool: Vec<u32> = if src.chance(100) { (0..src.range(1, 4)).map(|_| props[src.below(props.len())]).collect() } else { props.clone() };
            let preds: Vec<u32> = if src.chance(100) { vec![src.pick(&ALL_PREDICTORS), src.pick(&ALL_PREDICTORS)] } else { ALL_PREDICTORS.to_vec() };
            (gen_subtree(src, g, depth, &mut budget, &mut bounds, &pool, &preds), "random")
        }
        _ => {
            // static split on channel / stream at the top, generated subtrees below
            let mut budget = g.max_nodes.min(40);
            let mut bounds = vec![];
            let pool: Vec<u32> = vec![0, 1, 0, 1, 2, 3, 5, 9, 15, 16, 17];
            (gen_subtree(src, g, 4, &mut budget, &mut bounds, &pool, &ALL_PREDICTORS), "static-top")
        }
    };
    (Tree::new(root), label)
}
