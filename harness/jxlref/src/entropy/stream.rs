//! Entropy-coded stream writer: code description (LZ77 params, cluster map,
//! integer configs, histograms) and symbol streams.

use super::ans::*;
use super::prefix::*;
use crate::bits::{BitWriter, D};
use crate::src::Src;

#[derive(Clone, Copy, Debug, PartialEq, Eq)]
pub struct IntCfg {
    pub split_exponent: u32,
    pub msb: u32,
    pub lsb: u32,
}

fn floor_log2(v: u32) -> u32 {
    31 - v.leading_zeros()
}

/// ceil(log2(x + 1)): bits needed for a value in 0..=x
pub fn bits_for(x: u32) -> u32 {
    32 - x.leading_zeros()
}

impl IntCfg {
    pub const SIMPLE: IntCfg = IntCfg { split_exponent: 0, msb: 0, lsb: 0 };

    /// (token, number of raw bits, raw bits)
    pub fn tokenize(&self, v: u32) -> (u32, u32, u32) {
        let split = 1u32 << self.split_exponent;
        if v < split {
            return (v, 0, 0);
        }
        let n = floor_log2(v);
        let m = v - (1 << n);
        let token = split + ((n - self.split_exponent) << (self.msb + self.lsb)) + ((m >> (n - self.msb)) << self.lsb) + (m & ((1 << self.lsb) - 1));
        let nbits = n - self.msb - self.lsb;
        let bits = (m >> self.lsb) & (((1u64 << nbits) - 1) as u32);
        (token, nbits, bits)
    }

    /// Upper bound of the tokens of all values <= maxv (tokens are not monotone
    /// in the value when low bits are kept in the token).
    pub fn max_token_upto(&self, maxv: u32) -> u32 {
        let split = 1u32 << self.split_exponent;
        if maxv < split {
            return maxv;
        }
        let n = floor_log2(maxv);
        split + ((n - self.split_exponent) << (self.msb + self.lsb)) + ((1u32 << (self.msb + self.lsb)) - 1)
    }

    pub fn write(&self, w: &mut BitWriter, log_alpha: u32) {
        assert!(self.split_exponent <= log_alpha);
        w.bits(self.split_exponent as u64, bits_for(log_alpha));
        if self.split_exponent != log_alpha {
            assert!(self.msb <= self.split_exponent && self.msb + self.lsb <= self.split_exponent);
            w.bits(self.msb as u64, bits_for(self.split_exponent));
            w.bits(self.lsb as u64, bits_for(self.split_exponent - self.msb));
        } else {
            assert!(self.msb == 0 && self.lsb == 0);
        }
    }

    /// A generated config for which `maxv` tokenises below `limit`.
    pub fn generate(src: &mut Src, log_alpha: u32, maxv: u32, limit: u32) -> Option<IntCfg> {
        for attempt in 0..12 {
            let se = if attempt < 8 { src.range(0, log_alpha as u64) as u32 } else { (11 - attempt).min(log_alpha) };
            let (msb, lsb) = if se == log_alpha {
                (0, 0)
            } else {
                let msb = src.range(0, se as u64) as u32;
                let lsb = src.range(0, (se - msb) as u64) as u32;
                (msb, lsb)
            };
            let c = IntCfg { split_exponent: se, msb, lsb };
            if c.max_token_upto(maxv) < limit {
                return Some(c);
            }
        }
        if IntCfg::SIMPLE.max_token_upto(maxv) < limit {
            return Some(IntCfg::SIMPLE);
        }
        None
    }
}

#[derive(Clone, Copy, Debug, PartialEq, Eq)]
pub struct Lz77Params {
    pub min_symbol: u32,
    pub min_length: u32,
    pub len_cfg: IntCfg,
}

impl Lz77Params {
    pub fn gen_min_length(src: &mut Src) -> u32 {
        match src.weighted(&[2, 2, 2, 1]) {
            0 => 3,
            1 => 4,
            2 => 5 + src.range(0, 3) as u32,
            _ => 9 + src.range(0, 255) as u32,
        }
    }

    /// Generates min_symbol and the length config for a fixed `min_length`.
    /// `safe`: use values that always work (224, simple config).
    pub fn generate(src: &mut Src, use_prefix: bool, min_length: u32, safe: bool) -> Lz77Params {
        if safe {
            return Lz77Params { min_symbol: 224, min_length, len_cfg: IntCfg::SIMPLE };
        }
        let min_symbol = if use_prefix {
            match src.weighted(&[3, 1, 1, 2]) {
                0 => 224,
                1 => 512,
                2 => 4096,
                _ => 8 + src.range(0, 2000) as u32,
            }
        } else {
            // ANS alphabets hold at most 256 tokens
            match src.weighted(&[3, 2]) {
                0 => 224,
                _ => 8 + src.range(0, 230) as u32,
            }
        };
        // lz_len_conf is parsed with log_alphabet_size 8
        let len_cfg = IntCfg::generate(src, 8, 1 << 20, 64).unwrap_or(IntCfg::SIMPLE);
        Lz77Params { min_symbol, min_length, len_cfg }
    }

    pub fn write(&self, w: &mut BitWriter, src: &mut Src) {
        w.u32_any([D::C(224), D::C(512), D::C(4096), D::B(8, 15)], self.min_symbol, src);
        w.u32_any([D::C(3), D::C(4), D::B(5, 2), D::B(9, 8)], self.min_length, src);
        self.len_cfg.write(w, 8);
    }
}

pub const SPECIAL_DISTANCES: [[i8; 2]; 120] = [
    [0, 1], [1, 0], [1, 1], [-1, 1], [0, 2], [2, 0], [1, 2], [-1, 2], [2, 1], [-2, 1], [2, 2], [-2, 2], [0, 3], [3, 0], [1, 3], [-1, 3], [3, 1], [-3, 1], [2, 3], [-2, 3], [3, 2],
    [-3, 2], [0, 4], [4, 0], [1, 4], [-1, 4], [4, 1], [-4, 1], [3, 3], [-3, 3], [2, 4], [-2, 4], [4, 2], [-4, 2], [0, 5], [3, 4], [-3, 4], [4, 3], [-4, 3], [5, 0], [1, 5], [-1, 5],
    [5, 1], [-5, 1], [2, 5], [-2, 5], [5, 2], [-5, 2], [4, 4], [-4, 4], [3, 5], [-3, 5], [5, 3], [-5, 3], [0, 6], [6, 0], [1, 6], [-1, 6], [6, 1], [-6, 1], [2, 6], [-2, 6], [6, 2],
    [-6, 2], [4, 5], [-4, 5], [5, 4], [-5, 4], [3, 6], [-3, 6], [6, 3], [-6, 3], [0, 7], [7, 0], [1, 7], [-1, 7], [5, 5], [-5, 5], [7, 1], [-7, 1], [4, 6], [-4, 6], [6, 4], [-6, 4],
    [2, 7], [-2, 7], [7, 2], [-7, 2], [3, 7], [-3, 7], [7, 3], [-7, 3], [5, 6], [-5, 6], [6, 5], [-6, 5], [8, 0], [4, 7], [-4, 7], [7, 4], [-7, 4], [8, 1], [8, 2], [6, 6], [-6, 6],
    [8, 3], [5, 7], [-5, 7], [7, 5], [-7, 5], [8, 4], [6, 7], [-6, 7], [7, 6], [-7, 6], [8, 5], [7, 7], [-7, 7], [8, 6], [8, 7],
];

/// The effective back-reference distance (1-based) a decoder derives from a
/// coded distance value, given the multiplier and the number of values decoded
/// so far.
pub fn lz77_effective_distance(dist_value: u32, dist_multiplier: u32, num_decoded: u32) -> u32 {
    let d = if dist_multiplier == 0 {
        dist_value as i64
    } else if dist_value < 120 {
        let [off, dy] = SPECIAL_DISTANCES[dist_value as usize];
        let v = off as i64 + dist_multiplier as i64 * dy as i64;
        (v - 1).max(0)
    } else {
        dist_value as i64 - 120
    };
    let d = d.min((1 << 20) - 1) + 1;
    (d as u32).min(num_decoded)
}

/// All coded distance values that yield the effective 1-based distance `d`
/// (a sample: direct form, matching special codes, and - when `d` equals
/// `num_decoded` - an over-long distance that clamps).
pub fn lz77_distance_values(d: u32, dist_multiplier: u32, num_decoded: u32, src: &mut Src) -> Vec<u32> {
    let mut out = vec![];
    if dist_multiplier == 0 {
        out.push(d - 1);
    } else {
        out.push(d - 1 + 120);
        for i in 0..120u32 {
            if lz77_effective_distance(i, dist_multiplier, num_decoded) == d {
                out.push(i);
            }
        }
    }
    if d == num_decoded {
        // any larger distance clamps to num_decoded
        let extra = src.range(1, 1 << 21) as u32;
        out.push(d - 1 + extra + if dist_multiplier == 0 { 0 } else { 120 });
    }
    out.retain(|&v| lz77_effective_distance(v, dist_multiplier, num_decoded) == d);
    out
}

#[derive(Clone, Copy, Debug)]
pub enum Op {
    Lit { ctx: u32, value: u32 },
    /// Copy `len` values from `dist_value` (coded form, see `lz77_distance_values`);
    /// `ctx` is the context of the first copied position.
    Copy { ctx: u32, len: u32, dist_value: u32 },
}

#[derive(Clone, Copy, Debug)]
pub struct Sym {
    pub cluster: u8,
    pub token: u32,
    pub extra: u32,
    pub extra_bits: u32,
}

#[derive(Clone, Debug)]
pub enum Histo {
    /// code lengths over the cluster's alphabet (len = alphabet size)
    Prefix(Vec<u8>),
    /// distribution (len = table size) and the shift used by the general form
    Ans { dist: Vec<u16>, shift: u32 },
}

pub struct EntropyCode {
    pub lz77: Option<Lz77Params>,
    /// number of contexts as seen by the caller (without the LZ77 distance context)
    pub num_dist: usize,
    pub cluster_map: Vec<u8>,
    pub num_clusters: usize,
    pub use_prefix: bool,
    pub log_alpha: u32,
    pub configs: Vec<IntCfg>,
    pub histos: Vec<Histo>,
    prefix_codes: Vec<PrefixCode>,
    alias: Vec<AliasTable>,
    /// description of generator decisions, for class histograms
    pub notes: Vec<String>,
}

#[derive(Clone, Debug, Default)]
pub struct CodeOpts {
    /// LZ77 enabled with this min_length (min_symbol and the length config are generated)
    pub lz77_min_length: Option<u32>,
    /// None = generated
    pub use_prefix: Option<bool>,
    /// force a single cluster for all contexts
    pub single_cluster: bool,
    /// force one cluster per context (needs <= 256 contexts)
    pub distinct_clusters: bool,
}

fn gen_cluster_map(src: &mut Src, n: usize, single: bool) -> (Vec<u8>, usize) {
    if n == 1 || single {
        return (vec![0; n], 1);
    }
    let maxk = n.min(256);
    let k = match src.weighted(&[3, 3, 2, 1]) {
        0 => 1,
        1 => src.range(1, maxk.min(4) as u64) as usize,
        2 => src.range(1, maxk.min(16) as u64) as usize,
        _ => src.range(1, maxk as u64) as usize,
    };
    let mut map: Vec<u8> = (0..n).map(|_| src.below(k) as u8).collect();
    // make sure every id 0..k is used: plant them at generated positions
    let mut pos: Vec<usize> = (0..n).collect();
    for id in 0..k {
        let j = id + src.below(n - id);
        pos.swap(id, j);
        map[pos[id]] = id as u8;
    }
    (map, k)
}

fn normalise(counts: &[u64], table_size: usize, src: &mut Src) -> Vec<u16> {
    // counts over table_size entries; at least one non-zero
    let total: u64 = counts.iter().sum();
    let mut d = vec![0u32; table_size];
    let used: Vec<usize> = (0..table_size).filter(|&i| counts[i] > 0).collect();
    assert!(!used.is_empty());
    let mut sum = 0u32;
    for &i in &used {
        d[i] = ((counts[i] as u128 * 4096 / total as u128) as u32).max(1);
        sum += d[i];
    }
    // fix the sum
    let mut guard = 0;
    while sum != 4096 {
        guard += 1;
        assert!(guard < 100000);
        if sum < 4096 {
            let i = used[src.below(used.len())];
            let add = (4096 - sum).min(if src.bool() { 4096 } else { 1 + src.range(0, 64) as u32 });
            d[i] += add;
            sum += add;
        } else {
            // take from the largest
            let &i = used.iter().max_by_key(|&&i| d[i]).unwrap();
            let take = (sum - 4096).min(d[i] - 1);
            assert!(take > 0);
            d[i] -= take;
            sum -= take;
        }
    }
    d.into_iter().map(|x| x as u16).collect()
}

impl EntropyCode {
    /// Builds a code able to encode all the given op streams.  Every free
    /// choice (code kind, alphabet, clustering, integer configs, histogram
    /// shapes) is drawn from `src`.
    pub fn generate(src: &mut Src, num_dist: usize, streams: &[&[Op]], opts: &CodeOpts) -> EntropyCode {
        assert!(num_dist >= 1);
        let has_copy = streams.iter().any(|s| s.iter().any(|o| matches!(o, Op::Copy { .. })));
        assert!(!has_copy || opts.lz77_min_length.is_some(), "Copy ops need LZ77 parameters");
        let total_ctx = num_dist + opts.lz77_min_length.is_some() as usize;
        let mut notes = vec![];

        // maximum literal value per context; lengths and distances
        let mut maxv = vec![0u32; total_ctx];
        let mut used_ctx = vec![false; total_ctx];
        let mut max_len_val = 0u32;
        for s in streams {
            for o in s.iter() {
                match *o {
                    Op::Lit { ctx, value } => {
                        maxv[ctx as usize] = maxv[ctx as usize].max(value);
                        used_ctx[ctx as usize] = true;
                    }
                    Op::Copy { ctx, len, dist_value } => {
                        let ml = opts.lz77_min_length.unwrap();
                        assert!(len >= ml);
                        max_len_val = max_len_val.max(len - ml);
                        maxv[num_dist] = maxv[num_dist].max(dist_value);
                        used_ctx[num_dist] = true;
                        used_ctx[ctx as usize] = true;
                    }
                }
            }
        }

        for attempt in 0..8 {
            let use_prefix = match opts.use_prefix {
                Some(p) => p,
                None => attempt >= 6 || src.bool(),
            };
            let lz77 = opts.lz77_min_length.map(|ml| Lz77Params::generate(src, use_prefix, ml, attempt >= 4));
            let log_alpha = if use_prefix { 15 } else if attempt >= 3 || lz77.is_some() { 8 } else { 5 + src.range(0, 3) as u32 };
            let alphabet = 1u32 << log_alpha;
            let lit_limit = match lz77 {
                Some(l) => l.min_symbol.min(alphabet),
                None => alphabet,
            };
            if let Some(l) = lz77 {
                if has_copy && l.min_symbol + l.len_cfg.max_token_upto(max_len_val) >= alphabet {
                    continue;
                }
            }
            let (cluster_map, num_clusters) = if opts.distinct_clusters && total_ctx <= 256 { ((0..total_ctx).map(|c| c as u8).collect(), total_ctx) } else { gen_cluster_map(src, total_ctx, opts.single_cluster || attempt >= 7) };
            // per-cluster maximum value
            let mut cmax = vec![0u32; num_clusters];
            for c in 0..total_ctx {
                let k = cluster_map[c] as usize;
                cmax[k] = cmax[k].max(maxv[c]);
            }
            // the distance context's cluster is not limited by min_symbol, but sharing a
            // cluster with literal contexts is allowed, so keep the stricter limit when shared
            let mut configs = vec![];
            let mut ok = true;
            for k in 0..num_clusters {
                let only_dist = lz77.is_some() && (0..num_dist).all(|c| cluster_map[c] as usize != k);
                let limit = if only_dist { alphabet } else { lit_limit };
                match IntCfg::generate(src, log_alpha, cmax[k], limit) {
                    Some(c) => configs.push(c),
                    None => {
                        ok = false;
                        break;
                    }
                }
            }
            if !ok {
                continue;
            }
            let mut code = EntropyCode {
                lz77,
                num_dist,
                cluster_map,
                num_clusters,
                use_prefix,
                log_alpha,
                configs,
                histos: vec![],
                prefix_codes: vec![],
                alias: vec![],
                notes: vec![],
            };
            // token statistics
            let mut counts: Vec<Vec<u64>> = vec![vec![]; num_clusters];
            for s in streams {
                for sym in code.symbolize(s) {
                    let c = &mut counts[sym.cluster as usize];
                    if c.len() <= sym.token as usize {
                        c.resize(sym.token as usize + 1, 0);
                    }
                    c[sym.token as usize] += 1;
                }
            }
            notes.push(format!("{}", if use_prefix { "prefix" } else { "ans" }));
            if lz77.is_some() {
                notes.push("lz77".into());
            }
            if num_clusters > 1 {
                notes.push("multi-cluster".into());
            }
            for k in 0..num_clusters {
                if use_prefix {
                    let h = gen_prefix_histogram(src, &counts[k], &mut notes);
                    code.prefix_codes.push(PrefixCode::from_lengths(h.clone()));
                    code.histos.push(Histo::Prefix(h));
                } else {
                    let (dist, shift) = gen_ans_histogram(src, &counts[k], 1 << log_alpha, &mut notes);
                    code.alias.push(AliasTable::new(&dist, log_alpha));
                    code.histos.push(Histo::Ans { dist, shift });
                }
            }
            code.notes = notes;
            return code;
        }
        panic!("could not build an entropy code for the given streams");
    }

    pub fn cluster_of(&self, ctx: u32) -> u8 {
        self.cluster_map[ctx as usize]
    }

    pub fn symbolize(&self, ops: &[Op]) -> Vec<Sym> {
        let mut out = Vec::with_capacity(ops.len());
        for o in ops {
            match *o {
                Op::Lit { ctx, value } => {
                    let cluster = self.cluster_map[ctx as usize];
                    let (token, nb, bits) = self.configs[cluster as usize].tokenize(value);
                    if let Some(l) = self.lz77 {
                        assert!(token < l.min_symbol, "literal token {token} collides with LZ77 symbols");
                    }
                    out.push(Sym { cluster, token, extra: bits, extra_bits: nb });
                }
                Op::Copy { ctx, len, dist_value } => {
                    let l = self.lz77.expect("copy without lz77");
                    let cluster = self.cluster_map[ctx as usize];
                    let (token, nb, bits) = l.len_cfg.tokenize(len - l.min_length);
                    out.push(Sym { cluster, token: l.min_symbol + token, extra: bits, extra_bits: nb });
                    let dc = self.cluster_map[self.num_dist];
                    let (token, nb, bits) = self.configs[dc as usize].tokenize(dist_value);
                    out.push(Sym { cluster: dc, token, extra: bits, extra_bits: nb });
                }
            }
        }
        out
    }

    /// Writes the code description: LZ77, cluster map, code kind, integer configs, histograms.
    pub fn write_header(&self, w: &mut BitWriter, src: &mut Src) {
        w.bit(self.lz77.is_some());
        if let Some(l) = &self.lz77 {
            l.write(w, src);
        }
        self.write_after_lz77(w, src);
    }

    fn write_after_lz77(&self, w: &mut BitWriter, src: &mut Src) {
        write_cluster_map(w, &self.cluster_map, src);
        w.bit(self.use_prefix);
        if !self.use_prefix {
            w.bits((self.log_alpha - 5) as u64, 2);
        }
        for c in &self.configs {
            c.write(w, self.log_alpha);
        }
        if self.use_prefix {
            for h in &self.histos {
                let Histo::Prefix(l) = h else { unreachable!() };
                let count = l.len() as u32;
                if count == 1 {
                    w.bit(false);
                } else {
                    w.bit(true);
                    let n = floor_log2(count - 1);
                    w.bits(n as u64, 4);
                    w.bits((count - 1 - (1 << n)) as u64, n);
                }
            }
            for h in &self.histos {
                let Histo::Prefix(l) = h else { unreachable!() };
                write_prefix_histogram(w, l, src);
            }
        } else {
            for h in &self.histos {
                let Histo::Ans { dist, shift } = h else { unreachable!() };
                write_ans_histogram(w, dist, *shift, src);
            }
        }
    }

    /// Writes one symbol stream.  For ANS the 32-bit state is written first
    /// (also for an empty stream when `state_if_empty`).
    pub fn write_stream(&self, w: &mut BitWriter, ops: &[Op], state_if_empty: bool) {
        let syms = self.symbolize(ops);
        self.write_symbols(w, &syms, state_if_empty);
    }

    /// Negative-case helper: ANS stream ending in a wrong final state.
    pub fn write_stream_bad_final(&self, w: &mut BitWriter, ops: &[Op], final_state: u32) {
        assert!(!self.use_prefix);
        let syms = self.symbolize(ops);
        let items: Vec<AnsItem> = syms.iter().map(|s| AnsItem { table: s.cluster as usize, symbol: s.token, extra: s.extra, extra_bits: s.extra_bits }).collect();
        ans_encode_with_final(w, &self.alias, &items, final_state);
    }

    pub fn write_symbols(&self, w: &mut BitWriter, syms: &[Sym], state_if_empty: bool) {
        if self.use_prefix {
            for s in syms {
                self.prefix_codes[s.cluster as usize].put(w, s.token as usize);
                if s.extra_bits > 0 {
                    w.bits(s.extra as u64, s.extra_bits);
                }
            }
        } else {
            if syms.is_empty() && !state_if_empty {
                return;
            }
            let items: Vec<AnsItem> = syms.iter().map(|s| AnsItem { table: s.cluster as usize, symbol: s.token, extra: s.extra, extra_bits: s.extra_bits }).collect();
            ans_encode(w, &self.alias, &items);
        }
    }
}

fn gen_prefix_histogram(src: &mut Src, counts: &[u64], notes: &mut Vec<String>) -> Vec<u8> {
    let used: Vec<usize> = (0..counts.len()).filter(|&i| counts[i] > 0).collect();
    let min_size = used.last().map(|&l| l + 1).unwrap_or(1);
    // alphabet size with optional slack
    let mut size = min_size;
    if src.chance(64) {
        size = (min_size + src.range(0, 40) as usize).min(1 << 15);
    }
    if src.chance(8) {
        size = (min_size + src.range(0, 3000) as usize).min(1 << 15);
    }
    let mut f: Vec<u64> = counts.to_vec();
    f.resize(size, 0);
    // extra (unused) symbols get codes too
    if size > 1 && src.chance(80) {
        let extra = src.range(1, 6) as usize;
        for _ in 0..extra {
            let i = src.below(size);
            if f[i] == 0 {
                f[i] = 1 + src.range(0, 3);
            }
        }
    }
    // skew or flatten the statistics to reach deep / shallow codes
    match src.weighted(&[5, 2, 1]) {
        0 => {}
        1 => {
            let mut m = 1u64;
            for x in f.iter_mut().filter(|x| **x > 0) {
                *x = m;
                m = (m * 2).min(1 << 40);
            }
            notes.push("prefix:skewed".into());
        }
        _ => {
            for x in f.iter_mut().filter(|x| **x > 0) {
                *x = 1;
            }
        }
    }
    let n_used = f.iter().filter(|&&x| x > 0).count();
    if n_used == 0 {
        // cluster never used: any valid code; use "single symbol 0"
        let mut l = vec![0u8; size];
        l[0] = 1;
        if size == 1 {
            notes.push("prefix:alphabet1".into());
        }
        return l;
    }
    if n_used == 1 {
        let mut l = vec![0u8; size];
        l[f.iter().position(|&x| x > 0).unwrap()] = 1;
        notes.push(if size == 1 { "prefix:alphabet1".into() } else { "prefix:single".into() });
        return l;
    }
    let need = (n_used as f64).log2().ceil() as u8;
    let maxlen = if src.chance(64) { src.range(need.max(1) as u64, 15) as u8 } else { 15 };
    let l = if src.chance(40) {
        // arbitrary complete length set, unrelated to the statistics
        let lens = random_complete_lengths(n_used, maxlen.max(need), src);
        let mut l = vec![0u8; size];
        let mut k = 0;
        for i in 0..size {
            if f[i] > 0 {
                l[i] = lens[k];
                k += 1;
            }
        }
        notes.push("prefix:random-tree".into());
        l
    } else {
        huffman_lengths(&f, maxlen.max(need))
    };
    let deepest = *l.iter().max().unwrap();
    if deepest > 10 {
        notes.push("prefix:len>10".into());
    }
    if size > 1024 {
        notes.push("prefix:alphabet>1024".into());
    }
    notes.push(format!("prefix:nsym{}", match n_used { 2 => "2", 3 => "3", 4 => "4", _ => ">4" }));
    l
}

fn gen_ans_histogram(src: &mut Src, counts: &[u64], table_size: usize, notes: &mut Vec<String>) -> (Vec<u16>, u32) {
    let mut f: Vec<u64> = counts.to_vec();
    assert!(f.len() <= table_size, "token {} does not fit ANS alphabet {}", f.len() - 1, table_size);
    f.resize(table_size, 0);
    let mut n_used = f.iter().filter(|&&x| x > 0).count();
    if n_used == 0 {
        f[src.below(table_size.min(8))] = 1;
        n_used = 1;
    }
    if src.chance(64) {
        // extra symbols with non-zero probability
        for _ in 0..src.range(1, 5) {
            let i = src.below(table_size);
            if f[i] == 0 {
                f[i] = 1 + src.range(0, 5);
                n_used += 1;
            }
        }
    }
    let last = f.iter().rposition(|&x| x > 0).unwrap();
    // flat form: all symbols up to some alphabet size
    if n_used > 1 && src.chance(40) {
        let as_ = (last + 1 + if src.chance(64) { src.range(0, 10) as usize } else { 0 }).min(table_size);
        notes.push("ans:flat".into());
        let d = flat_dist(as_, table_size);
        let mut shift = src.range(0, 13) as u32;
        if make_representable(&d, shift).map(|r| r.0 != d).unwrap_or(true) {
            shift = 13;
        }
        return (d, shift);
    }
    match src.weighted(&[5, 1, 1]) {
        0 => {}
        1 => {
            let mut m = 1u64;
            for x in f.iter_mut().filter(|x| **x > 0) {
                *x = m;
                m = (m * 2).min(1 << 30);
            }
        }
        _ => {
            for x in f.iter_mut().filter(|x| **x > 0) {
                *x = 1;
            }
        }
    }
    let d = normalise(&f, table_size, src);
    if n_used == 1 {
        notes.push("ans:single".into());
        return (d, 0);
    }
    if n_used == 2 {
        notes.push("ans:two-symbols".into());
    }
    // choose a shift and round to what the general form can express
    let mut shift = match src.weighted(&[2, 1, 2]) {
        0 => 13,
        1 => 12,
        _ => src.range(0, 13) as u32,
    };
    loop {
        if let Some((r, _)) = make_representable(&d, shift) {
            notes.push(format!("ans:general/shift{}", if shift >= 12 { "12-13" } else if shift >= 6 { "6-11" } else { "0-5" }));
            return (r, shift);
        }
        if shift == 13 {
            // cannot happen for a valid distribution with >= 2 symbols unless the
            // first maximal entry would exceed 2^12 - 1; fall back to flat
            notes.push("ans:flat-fallback".into());
            return (flat_dist(last + 1, table_size), 13);
        }
        shift = 13;
    }
}

/// Forward move-to-front transform (encoder side).
fn mtf_encode(ids: &[u8]) -> Vec<u8> {
    let mut list: Vec<u8> = (0..=255).collect();
    let mut out = vec![];
    for &v in ids {
        let idx = list.iter().position(|&x| x == v).unwrap();
        out.push(idx as u8);
        list.remove(idx);
        list.insert(0, v);
    }
    out
}

pub fn write_cluster_map(w: &mut BitWriter, map: &[u8], src: &mut Src) {
    let n = map.len();
    if n == 1 {
        return;
    }
    let maxid = *map.iter().max().unwrap() as u32;
    let need = bits_for(maxid);
    if need <= 3 && src.chance(160) {
        // simple
        w.bit(true);
        let nbits = src.range(need as u64, 3) as u32;
        w.bits(nbits as u64, 2);
        for &m in map {
            w.bits(m as u64, nbits);
        }
        return;
    }
    w.bit(false);
    let use_mtf = src.bool();
    w.bit(use_mtf);
    let vals = if use_mtf { mtf_encode(map) } else { map.to_vec() };
    let allow_lz = n > 2;
    let lz = if allow_lz && src.chance(48) { Some(Lz77Params::gen_min_length(src)) } else { None };
    let mut ops: Vec<Op> = vec![];
    if let Some(min_length) = lz {
        // RLE-style copies (distance 1) where runs permit
        let mut i = 0;
        while i < vals.len() {
            let mut run = 1;
            while i + run < vals.len() && vals[i + run] == vals[i] {
                run += 1;
            }
            ops.push(Op::Lit { ctx: 0, value: vals[i] as u32 });
            let rest = run - 1;
            if rest as u32 >= min_length && src.chance(200) {
                ops.push(Op::Copy { ctx: 0, len: rest as u32, dist_value: 0 });
                i += run;
            } else {
                i += 1;
            }
        }
    } else {
        ops = vals.iter().map(|&v| Op::Lit { ctx: 0, value: v as u32 }).collect();
    }
    let opts = CodeOpts { lz77_min_length: lz, use_prefix: None, single_cluster: false, distinct_clusters: false };
    // literal tokens must stay below min_symbol; cluster ids are < 256 so SIMPLE config always works
    let code = EntropyCode::generate(src, 1, &[&ops], &opts);
    if allow_lz {
        code.write_header(w, src);
    } else {
        w.bit(false);
        code.write_after_lz77(w, src);
    }
    code.write_stream(w, &ops, true);
}

// ---------------------------------------------------------------------------
// Permutations (Lehmer code)

pub fn perm_context(x: u32) -> u32 {
    bits_for(x).min(7)
}

/// Ops encoding `perm` (a permutation of 0..size whose first `skip` entries
/// are the identity), in the 8-context scheme.  `pad_end`: code some trailing
/// zero Lehmer digits explicitly.
pub fn permutation_ops(perm: &[usize], skip: usize, pad_end: usize) -> Vec<Op> {
    let size = perm.len();
    for i in 0..skip {
        assert_eq!(perm[i], i);
    }
    let mut temp: Vec<usize> = (skip..size).collect();
    let mut lehmer = vec![];
    for i in skip..size {
        let idx = temp.iter().position(|&x| x == perm[i]).unwrap();
        lehmer.push(idx as u32);
        temp.remove(idx);
    }
    let mut end = lehmer.iter().rposition(|&x| x != 0).map(|p| p + 1).unwrap_or(0);
    end = (end + pad_end).min(size - skip);
    let mut ops = vec![Op::Lit { ctx: perm_context(size as u32), value: end as u32 }];
    let mut prev = 0u32;
    for &l in &lehmer[..end] {
        ops.push(Op::Lit { ctx: perm_context(prev), value: l });
        prev = l;
    }
    ops
}

pub fn gen_permutation(src: &mut Src, size: usize, skip: usize) -> Vec<usize> {
    let mut p: Vec<usize> = (0..size).collect();
    if size - skip < 2 {
        return p;
    }
    match src.weighted(&[1, 3, 2, 2]) {
        0 => {}
        1 => {
            // a few swaps
            for _ in 0..src.range(1, 4) {
                let a = skip + src.below(size - skip);
                let b = skip + src.below(size - skip);
                p.swap(a, b);
            }
        }
        2 => {
            // full shuffle
            for i in (skip + 1..size).rev() {
                let j = skip + src.below(i - skip + 1);
                p.swap(i, j);
            }
        }
        _ => p[skip..].reverse(),
    }
    p
}
