//! Entropy coding, writer side (ISO/IEC 18181-1 Annex C): hybrid integer
//! tokens, prefix and ANS histograms, cluster maps, LZ77, permutations.

pub mod ans;
pub mod prefix;
pub mod stream;

pub use stream::*;
