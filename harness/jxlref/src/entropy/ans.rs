//! ANS distribution writer (all header forms), alias table per the format
//! definition, and the rANS encoder (reverse pass).

use crate::bits::BitWriter;
use crate::src::Src;

pub const ANS_TAB: u32 = 4096;
pub const ANS_FINAL_STATE: u32 = 0x130000;

fn put_u8(w: &mut BitWriter, v: u32) {
    assert!(v < 256);
    if v == 0 {
        w.bit(false);
    } else {
        w.bit(true);
        let n = 31 - v.leading_zeros();
        w.bits(n as u64, 3);
        w.bits((v - (1 << n)) as u64, n);
    }
}

// (bit length, bits LSB-first) of the static code for log-counts 0..=13
pub const LOGCOUNT_LEN: [u32; 14] = [5, 4, 4, 4, 4, 4, 3, 3, 3, 3, 3, 6, 7, 7];
pub const LOGCOUNT_SYM: [u64; 14] = [17, 11, 15, 3, 9, 7, 4, 2, 5, 6, 0, 33, 1, 65];

fn floor_log2(v: u32) -> u32 {
    31 - v.leading_zeros()
}

/// Which header forms can express `dist` exactly?
#[derive(Clone, Copy, Debug, PartialEq, Eq)]
pub enum AnsForm {
    Single,
    Binary,
    Flat,
    General,
}

pub fn flat_dist(alphabet_size: usize, table_size: usize) -> Vec<u16> {
    let mut d = vec![0u16; table_size];
    let base = 4096 / alphabet_size;
    let left = 4096 % alphabet_size;
    for i in 0..alphabet_size {
        d[i] = base as u16 + if i < left { 1 } else { 0 };
    }
    d
}

/// Number of mantissa bits kept for a value with `zeros = floor(log2(v))` under `shift`.
fn kept_bits(shift: i32, zeros: i32) -> i32 {
    (shift - ((12 - zeros) >> 1)).clamp(0, zeros)
}

/// Round `dist` (sum 4096, every entry in `must` > 0) so that it is exactly
/// representable by the general form with the given shift.  Returns the new
/// distribution and the omit position.
pub fn make_representable(dist: &[u16], shift: u32) -> Option<(Vec<u16>, usize)> {
    let n = dist.len();
    // omit = first position holding the maximal log
    let maxlog = dist.iter().filter(|&&d| d > 0).map(|&d| floor_log2(d as u32)).max()?;
    let omit = (0..n).find(|&i| dist[i] > 0 && floor_log2(dist[i] as u32) == maxlog)?;
    let mut out = dist.to_vec();
    let mut acc = 0u32;
    for i in 0..n {
        if i == omit || dist[i] == 0 {
            continue;
        }
        let v = dist[i] as u32;
        let zeros = floor_log2(v) as i32;
        let keep = kept_bits(shift as i32, zeros);
        let drop = zeros - keep;
        let r = (v >> drop) << drop;
        out[i] = r as u16;
        acc += r;
    }
    if acc >= 4096 {
        return None;
    }
    out[omit] = (4096 - acc) as u16;
    // the omit position must still be the first with the maximal log-count code
    let omit_log = floor_log2(out[omit] as u32);
    if omit_log > 11 {
        return None; // would need code 13 = RLE marker
    }
    for i in 0..n {
        if i != omit && out[i] > 0 {
            let l = floor_log2(out[i] as u32);
            if l > omit_log || (l == omit_log && i < omit) {
                return None;
            }
        }
    }
    Some((out, omit))
}

/// Writes a distribution.  `dist` has `table_size = 1 << log_alphabet_size`
/// entries summing to 4096.  The form is chosen among those that can express
/// it exactly; for the general form `shift` must make it representable
/// (see `make_representable`).
pub fn write_ans_histogram(w: &mut BitWriter, dist: &[u16], shift: u32, src: &mut Src) -> AnsForm {
    let table_size = dist.len();
    assert_eq!(dist.iter().map(|&d| d as u32).sum::<u32>(), 4096);
    let used: Vec<usize> = (0..table_size).filter(|&i| dist[i] > 0).collect();
    let last_used = *used.last().unwrap();
    // single
    if used.len() == 1 {
        w.bit(true);
        w.bit(false);
        put_u8(w, used[0] as u32);
        return AnsForm::Single;
    }
    let mut forms = vec![AnsForm::General];
    if used.len() == 2 {
        forms.push(AnsForm::Binary);
    }
    if (0..=last_used).all(|i| dist[i] > 0) && flat_dist(last_used + 1, table_size) == dist {
        forms.push(AnsForm::Flat);
    }
    if last_used < 2 && used.len() == 2 {
        // general form needs alphabet_size >= 3 which is fine (trailing zero), keep it
    }
    // prefer the compact forms most of the time, but exercise all
    let form = if forms.len() > 1 && src.chance(200) { forms[1 + src.below(forms.len() - 1)] } else { AnsForm::General };
    match form {
        AnsForm::Binary => {
            w.bit(true);
            w.bit(true);
            // v0, v1 in either order
            let (a, b) = if src.bool() { (used[0], used[1]) } else { (used[1], used[0]) };
            put_u8(w, a as u32);
            put_u8(w, b as u32);
            w.bits(dist[a] as u64, 12);
            AnsForm::Binary
        }
        AnsForm::Flat => {
            w.bit(false);
            w.bit(true);
            put_u8(w, last_used as u32);
            AnsForm::Flat
        }
        _ => {
            w.bit(false);
            w.bit(false);
            // shift + 1 as unary-length-prefixed
            let s1 = shift + 1;
            let len = floor_log2(s1).min(3);
            for _ in 0..len {
                w.bit(true);
            }
            if len < 3 {
                w.bit(false);
            }
            w.bits((s1 - (1 << len)) as u64, len);
            // alphabet size: >= 3, may include trailing zeros
            let min_as = (last_used + 1).max(3);
            let alphabet_size = if src.chance(48) { src.range(min_as as u64, table_size.max(min_as) as u64) as usize } else { min_as };
            put_u8(w, (alphabet_size - 3) as u32);
            let omit = {
                let (chk, omit) = make_representable(dist, shift).expect("distribution not representable in general form");
                assert_eq!(&chk[..], dist, "distribution must be pre-rounded for this shift");
                omit
            };
            // first pass: log-count codes with RLE
            let use_rle = !src.chance(48);
            let mut codes: Vec<(usize, u32, Option<u32>)> = vec![]; // (idx, code, rle count)
            let get = |i: usize| if i < table_size { dist[i] } else { 0 };
            let mut i = 0;
            let mut prev: Option<u16> = Some(0); // value an RLE would repeat; None = not allowed (after omit)
            while i < alphabet_size {
                let v = get(i);
                if let Some(p) = prev {
                    if use_rle && i != omit {
                        let mut run = 0;
                        while i + run < alphabet_size && get(i + run) == p && i + run != omit {
                            run += 1;
                        }
                        let run = run.min(255 + 4);
                        if run >= 4 && src.chance(230) {
                            let cover = if src.chance(40) { src.range(4, run as u64) as usize } else { run };
                            codes.push((i, 13, Some(cover as u32 - 4)));
                            i += cover;
                            // prev unchanged (the repeated value)
                            continue;
                        }
                    }
                }
                let code = if v == 0 { 0 } else { floor_log2(v as u32) + 1 };
                codes.push((i, code, None));
                prev = if i == omit { None } else { Some(v) };
                // after the omit position an RLE is invalid only *immediately* after it
                i += 1;
                if prev.is_none() && i < alphabet_size {
                    // force a literal for the next entry, then RLE semantics resume with its value
                    let v2 = get(i);
                    let code2 = if v2 == 0 { 0 } else { floor_log2(v2 as u32) + 1 };
                    codes.push((i, code2, None));
                    // value following the omitted one: prev_dist was reset to 0 by the omit
                    prev = Some(v2);
                    i += 1;
                }
            }
            for &(_, code, rle) in &codes {
                w.bits(LOGCOUNT_SYM[code as usize], LOGCOUNT_LEN[code as usize]);
                if let Some(r) = rle {
                    put_u8(w, r);
                }
            }
            // second pass: mantissa bits, in index order, skipping RLE-covered, zero, one and omit
            for &(i, code, rle) in &codes {
                if rle.is_some() || i == omit || code <= 1 {
                    continue;
                }
                let v = get(i) as u32;
                let zeros = (code - 1) as i32;
                let keep = kept_bits(shift as i32, zeros);
                let mant = (v - (1 << zeros)) >> (zeros - keep);
                w.bits(mant as u64, keep as u32);
            }
            AnsForm::General
        }
    }
}

/// Alias table per the format definition.
pub struct AliasTable {
    pub log_bucket_size: u32,
    pub symbols: Vec<u32>,
    pub offsets: Vec<u32>,
    pub cutoffs: Vec<u32>,
    pub dist: Vec<u16>,
    /// slot[s][k] = the 12-bit state index that decodes to (symbol s, offset k)
    pub slots: Vec<Vec<u16>>,
}

impl AliasTable {
    pub fn new(dist: &[u16], log_alphabet_size: u32) -> Self {
        let table_size = 1usize << log_alphabet_size;
        assert_eq!(dist.len(), table_size);
        let log_bucket_size = 12 - log_alphabet_size;
        let bucket_size = 1u32 << log_bucket_size;
        let mut symbols = vec![0u32; table_size];
        let mut offsets = vec![0u32; table_size];
        let mut cutoffs = vec![0u32; table_size];
        if let Some(single) = dist.iter().position(|&d| d as u32 == ANS_TAB) {
            for i in 0..table_size {
                symbols[i] = single as u32;
                offsets[i] = bucket_size * i as u32;
                cutoffs[i] = 0;
            }
        } else {
            // alphabet size = index of last non-zero + 1
            let alphabet_size = dist.iter().rposition(|&d| d > 0).unwrap() + 1;
            let mut underfull = vec![];
            let mut overfull = vec![];
            for i in 0..alphabet_size {
                cutoffs[i] = dist[i] as u32;
                symbols[i] = i as u32;
                if cutoffs[i] > bucket_size {
                    overfull.push(i);
                } else if cutoffs[i] < bucket_size {
                    underfull.push(i);
                }
            }
            for i in alphabet_size..table_size {
                cutoffs[i] = 0;
                underfull.push(i);
            }
            while let Some(o) = overfull.pop() {
                let u = underfull.pop().expect("alias construction: no underfull bucket");
                let by = bucket_size - cutoffs[u];
                cutoffs[o] -= by;
                symbols[u] = o as u32;
                offsets[u] = cutoffs[o];
                if cutoffs[o] < bucket_size {
                    underfull.push(o);
                } else if cutoffs[o] > bucket_size {
                    overfull.push(o);
                }
            }
            for i in 0..table_size {
                if cutoffs[i] == bucket_size {
                    symbols[i] = i as u32;
                    offsets[i] = 0;
                    cutoffs[i] = 0;
                } else {
                    offsets[i] = offsets[i].wrapping_sub(cutoffs[i]);
                }
            }
        }
        let mut t = AliasTable { log_bucket_size, symbols, offsets, cutoffs, dist: dist.to_vec(), slots: vec![] };
        let mut slots: Vec<Vec<u16>> = dist.iter().map(|&d| vec![u16::MAX; d as usize]).collect();
        for x in 0..ANS_TAB {
            let (s, off) = t.lookup(x);
            assert!((off as usize) < slots[s as usize].len(), "alias lookup out of range: x={x} s={s} off={off}");
            assert_eq!(slots[s as usize][off as usize], u16::MAX, "alias map not a bijection");
            slots[s as usize][off as usize] = x as u16;
        }
        t.slots = slots;
        t
    }

    pub fn lookup(&self, x: u32) -> (u32, u32) {
        let i = (x >> self.log_bucket_size) as usize;
        let pos = x & ((1 << self.log_bucket_size) - 1);
        if pos >= self.cutoffs[i] {
            (self.symbols[i], self.offsets[i].wrapping_add(pos))
        } else {
            (i as u32, pos)
        }
    }
}

/// One item of the forward symbol stream of a single ANS stream.
#[derive(Clone, Copy, Debug)]
pub struct AnsItem {
    pub table: usize,
    pub symbol: u32,
    pub extra: u32,
    pub extra_bits: u32,
}

/// Encodes `items` (forward order) into `w`: 32-bit initial state, then per
/// symbol the optional 16-bit refill followed by its raw extra bits.
pub fn ans_encode(w: &mut BitWriter, tables: &[AliasTable], items: &[AnsItem]) {
    ans_encode_with_final(w, tables, items, ANS_FINAL_STATE)
}

/// Same, but ending in an arbitrary final state (a state other than
/// `ANS_FINAL_STATE` makes the stream invalid: used for negative cases).
pub fn ans_encode_with_final(w: &mut BitWriter, tables: &[AliasTable], items: &[AnsItem], final_state: u32) {
    let mut state = final_state;
    // per item: Some(word) if a refill is read after decoding it
    let mut refills: Vec<Option<u16>> = vec![None; items.len()];
    for (k, it) in items.iter().enumerate().rev() {
        let t = &tables[it.table];
        let f = t.dist[it.symbol as usize] as u32;
        assert!(f > 0, "symbol {} has zero probability in table {}", it.symbol, it.table);
        if (state >> 20) >= f {
            refills[k] = Some((state & 0xffff) as u16);
            state >>= 16;
        }
        let slot = t.slots[it.symbol as usize][(state % f) as usize] as u32;
        state = ((state / f) << 12) + slot;
    }
    w.bits(state as u64, 32);
    for (k, it) in items.iter().enumerate() {
        if let Some(r) = refills[k] {
            w.bits(r as u64, 16);
        }
        if it.extra_bits > 0 {
            w.bits(it.extra as u64, it.extra_bits);
        }
    }
}

/// Table-driven reference decode of one symbol (used for self-tests only).
pub fn ans_decode_symbol(t: &AliasTable, state: &mut u32, refill: &mut dyn FnMut() -> u16) -> u32 {
    let (s, off) = t.lookup(*state & 0xfff);
    *state = t.dist[s as usize] as u32 * (*state >> 12) + off;
    if *state < (1 << 16) {
        *state = (*state << 16) | refill() as u32;
    }
    s
}
