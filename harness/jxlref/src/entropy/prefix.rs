//! Prefix (Brotli-style) code writer: simple and complex histogram forms,
//! canonical code construction, symbol emission.

use crate::bits::BitWriter;
use crate::src::Src;

/// Canonical prefix code for encoding.
#[derive(Clone, Debug)]
pub struct PrefixCode {
    /// code length per symbol (0 = unused)
    pub lengths: Vec<u8>,
    /// canonical code per symbol (MSB-first value of `lengths[s]` bits)
    pub codes: Vec<u16>,
    n_used: usize,
}

impl PrefixCode {
    pub fn from_lengths(lengths: Vec<u8>) -> Self {
        let mut codes = vec![0u16; lengths.len()];
        let mut code = 0u32;
        for len in 1..=15u8 {
            for (s, &l) in lengths.iter().enumerate() {
                if l == len {
                    codes[s] = code as u16;
                    code += 1;
                }
            }
            code <<= 1;
        }
        let n_used = lengths.iter().filter(|&&l| l > 0).count();
        PrefixCode { lengths, codes, n_used }
    }

    pub fn num_used(&self) -> usize {
        self.n_used
    }

    /// Emit one symbol.  A code with a single used symbol takes zero bits.
    pub fn put(&self, w: &mut BitWriter, sym: usize) {
        if self.num_used() <= 1 {
            assert!(self.lengths.get(sym).copied().unwrap_or(0) > 0 || self.lengths.len() == 1, "symbol {sym} not in single-symbol code");
            return;
        }
        let l = self.lengths[sym];
        assert!(l > 0, "symbol {sym} has no code");
        let c = self.codes[sym];
        // first bit on the wire is the MSB of the canonical code
        for i in (0..l).rev() {
            w.bit((c >> i) & 1 != 0);
        }
    }
}

/// Kraft sum in units of 2^-15.
pub fn kraft(lengths: &[u8]) -> u64 {
    lengths.iter().filter(|&&l| l > 0).map(|&l| 1u64 << (15 - l)).sum()
}

/// Length-limited Huffman code lengths for the given frequencies (symbols
/// with frequency 0 get length 0).  At least two used symbols are required
/// for a real code; with one used symbol that symbol gets length 0 here and
/// the caller uses the single-symbol form.
pub fn huffman_lengths(freqs: &[u64], maxlen: u8) -> Vec<u8> {
    let used: Vec<usize> = (0..freqs.len()).filter(|&i| freqs[i] > 0).collect();
    let mut lengths = vec![0u8; freqs.len()];
    if used.len() <= 1 {
        return lengths;
    }
    let mut f: Vec<u64> = freqs.to_vec();
    loop {
        // plain Huffman via repeated merging (alphabets here are small enough)
        #[derive(Clone)]
        struct Node {
            w: u64,
            syms: Vec<usize>,
        }
        let mut nodes: Vec<Node> = used.iter().map(|&s| Node { w: f[s].max(1), syms: vec![s] }).collect();
        let mut depth = vec![0u32; freqs.len()];
        // use a binary heap keyed by (weight, tie) for determinism
        use std::cmp::Reverse;
        use std::collections::BinaryHeap;
        let mut heap: BinaryHeap<Reverse<(u64, usize)>> = BinaryHeap::new();
        for (i, n) in nodes.iter().enumerate() {
            heap.push(Reverse((n.w, i)));
        }
        while heap.len() > 1 {
            let Reverse((wa, a)) = heap.pop().unwrap();
            let Reverse((wb, b)) = heap.pop().unwrap();
            let mut syms = std::mem::take(&mut nodes[a].syms);
            syms.extend(std::mem::take(&mut nodes[b].syms));
            for &s in &syms {
                depth[s] += 1;
            }
            nodes.push(Node { w: wa + wb, syms });
            heap.push(Reverse((wa + wb, nodes.len() - 1)));
        }
        let maxd = used.iter().map(|&s| depth[s]).max().unwrap();
        if maxd <= maxlen as u32 {
            for &s in &used {
                lengths[s] = depth[s] as u8;
            }
            return lengths;
        }
        // flatten the distribution and retry
        for &s in &used {
            f[s] = (f[s] >> 1).max(1);
        }
    }
}

/// A random Kraft-complete set of `n` code lengths (n >= 2), depths <= maxlen,
/// biased by `src` (deep, skewed trees occur).
pub fn random_complete_lengths(n: usize, maxlen: u8, src: &mut Src) -> Vec<u8> {
    assert!(n >= 2 && n <= (1usize << maxlen));
    // leaves by depth
    let mut leaves: Vec<u8> = vec![1, 1];
    let style = src.below(3);
    while leaves.len() < n {
        // choose a splittable leaf
        let cands: Vec<usize> = (0..leaves.len()).filter(|&i| leaves[i] < maxlen).collect();
        assert!(!cands.is_empty());
        let pick = match style {
            0 => cands[src.below(cands.len())],
            // always split the deepest (skewed, reaches maxlen quickly)
            1 => *cands.iter().max_by_key(|&&i| leaves[i]).unwrap(),
            // split the shallowest (balanced)
            _ => *cands.iter().min_by_key(|&&i| leaves[i]).unwrap(),
        };
        let d = leaves[pick] + 1;
        leaves[pick] = d;
        leaves.push(d);
    }
    leaves
}

// ---------------------------------------------------------------------------
// Histogram (code description) writers

fn alphabet_bits(alphabet_size: usize) -> u32 {
    // ceil(log2(alphabet_size))
    (alphabet_size as u32).next_power_of_two().trailing_zeros()
}

/// Can the code be written in the "simple" form?  Returns the symbol order and
/// tree selector if so.
fn simple_form(lengths: &[u8]) -> Option<(Vec<usize>, Option<bool>)> {
    let used: Vec<usize> = (0..lengths.len()).filter(|&i| lengths[i] > 0).collect();
    match used.len() {
        2 if used.iter().all(|&s| lengths[s] == 1) => Some((used, None)),
        3 => {
            let one: Vec<usize> = used.iter().copied().filter(|&s| lengths[s] == 1).collect();
            let two: Vec<usize> = used.iter().copied().filter(|&s| lengths[s] == 2).collect();
            if one.len() == 1 && two.len() == 2 {
                Some((vec![one[0], two[0], two[1]], None))
            } else {
                None
            }
        }
        4 => {
            if used.iter().all(|&s| lengths[s] == 2) {
                Some((used, Some(false)))
            } else {
                let l1: Vec<usize> = used.iter().copied().filter(|&s| lengths[s] == 1).collect();
                let l2: Vec<usize> = used.iter().copied().filter(|&s| lengths[s] == 2).collect();
                let l3: Vec<usize> = used.iter().copied().filter(|&s| lengths[s] == 3).collect();
                if l1.len() == 1 && l2.len() == 1 && l3.len() == 2 {
                    Some((vec![l1[0], l2[0], l3[0], l3[1]], Some(true)))
                } else {
                    None
                }
            }
        }
        _ => None,
    }
}

/// Find extra-bit values e_0..e_k such that the chained repeat total equals
/// `r`.  `mul` = 4 (symbol 16) or 8 (symbol 17); first total = 3+e.
fn repeat_chain(r: usize, mul: usize) -> Option<Vec<usize>> {
    let maxe = mul - 1; // 3 or 7
    if r < 3 {
        return None;
    }
    if r <= 3 + maxe {
        return Some(vec![r - 3]);
    }
    for e in 0..=maxe {
        if r < 3 + e {
            break;
        }
        let rem = r - 3 - e;
        if rem % mul == 0 {
            let prev = rem / mul + 2;
            if prev >= 3 && prev < r {
                if let Some(mut c) = repeat_chain(prev, mul) {
                    c.push(e);
                    return Some(c);
                }
            }
        }
    }
    None
}

/// Code-length symbol stream: (symbol 0..=17, extra bits value, extra bits count)
fn code_length_symbols(lengths: &[u8], src: &mut Src) -> Vec<(u8, u32, u32)> {
    let last = lengths.iter().rposition(|&l| l > 0).unwrap();
    let mut out = vec![];
    let mut i = 0;
    let mut prev_nonzero = 8u8;
    let mut prev_sym: Option<u8> = None;
    let use_rle = !src.chance(40);
    while i <= last {
        let v = lengths[i];
        let mut run = 1;
        while i + run <= last && lengths[i + run] == v {
            run += 1;
        }
        if v == 0 {
            // zeros: symbol 17 chains, or literal zeros
            if use_rle && run >= 3 && prev_sym != Some(17) && src.chance(230) {
                // optionally only cover part of the run with the chain
                let cover = if src.chance(48) { src.range(3, run as u64) as usize } else { run };
                if let Some(chain) = repeat_chain(cover, 8) {
                    for e in chain {
                        out.push((17, e as u32, 3));
                    }
                    prev_sym = Some(17);
                    i += cover;
                    continue;
                }
            }
            out.push((0, 0, 0));
            prev_sym = Some(0);
            i += 1;
        } else {
            // need prev_nonzero == v for symbol 16
            if v != prev_nonzero || prev_sym == Some(16) || run < 3 || !use_rle || !src.chance(230) {
                out.push((v, 0, 0));
                prev_nonzero = v;
                prev_sym = Some(v);
                i += 1;
                continue;
            }
            let cover = if src.chance(48) { src.range(3, run as u64) as usize } else { run };
            if let Some(chain) = repeat_chain(cover, 4) {
                for e in chain {
                    out.push((16, e as u32, 2));
                }
                prev_sym = Some(16);
                i += cover;
            } else {
                out.push((v, 0, 0));
                prev_sym = Some(v);
                i += 1;
            }
        }
    }
    out
}

const CODE_LENGTH_ORDER: [usize; 18] = [1, 2, 3, 4, 0, 5, 17, 6, 16, 7, 8, 9, 10, 11, 12, 13, 14, 15];

/// Writes the fixed variable-length code for a code-length-code length 0..=5.
fn put_cl_len(w: &mut BitWriter, len: u8) {
    // symbol: bits as they appear LSB-first
    match len {
        0 => w.bits(0b00, 2),
        3 => w.bits(0b10, 2),
        4 => w.bits(0b01, 2),
        2 => w.bits(0b011, 3),
        1 => w.bits(0b0111, 4),
        5 => w.bits(0b1111, 4),
        _ => panic!("code length code length {len} > 5"),
    }
}

/// Describes the histogram for one prefix code of `alphabet_size` symbols.
/// `lengths.len() == alphabet_size`.  Precondition: either exactly one used
/// symbol (any stated length > 0) or a Kraft-complete set.
pub fn write_prefix_histogram(w: &mut BitWriter, lengths: &[u8], src: &mut Src) {
    let alphabet_size = lengths.len();
    assert!(alphabet_size >= 1 && alphabet_size <= 1 << 15);
    if alphabet_size == 1 {
        return; // nothing is signalled
    }
    let used: Vec<usize> = (0..alphabet_size).filter(|&i| lengths[i] > 0).collect();
    assert!(!used.is_empty());
    let abits = alphabet_bits(alphabet_size);
    if used.len() == 1 {
        // simple form, NSYM = 1
        w.bits(1, 2);
        w.bits(0, 2);
        w.bits(used[0] as u64, abits);
        return;
    }
    assert_eq!(kraft(lengths), 1 << 15, "prefix code lengths are not complete");
    if let Some((syms, tree)) = simple_form(lengths) {
        if src.chance(200) {
            w.bits(1, 2);
            w.bits(syms.len() as u64 - 1, 2);
            for &s in &syms {
                w.bits(s as u64, abits);
            }
            if let Some(t) = tree {
                w.bit(t);
            }
            return;
        }
    }
    // complex form
    let cl_syms = code_length_symbols(lengths, src);
    let mut freq = [0u64; 18];
    for &(s, _, _) in &cl_syms {
        freq[s as usize] += 1;
    }
    let cl_lengths = huffman_lengths(&freq, 5);
    let n_used = freq.iter().filter(|&&f| f > 0).count();
    let mut cl_lengths_written = cl_lengths.clone();
    if n_used == 1 {
        // single code-length symbol: stated with any length 1..=5, zero bits per use
        let s = freq.iter().position(|&f| f > 0).unwrap();
        cl_lengths_written[s] = src.range(1, 5) as u8;
    }
    // hskip: leading entries of the order (symbols 1,2,(3)) that are zero may be skipped
    let mut hskip_opts = vec![0usize];
    if cl_lengths_written[1] == 0 && cl_lengths_written[2] == 0 {
        hskip_opts.push(2);
        if cl_lengths_written[3] == 0 {
            hskip_opts.push(3);
        }
    }
    let hskip = hskip_opts[src.below(hskip_opts.len())];
    w.bits(hskip as u64, 2);
    let mut space = 0u32;
    for &idx in CODE_LENGTH_ORDER.iter().skip(hskip) {
        let l = cl_lengths_written[idx];
        put_cl_len(w, l);
        if l != 0 {
            space += 32 >> l;
            if space == 32 && n_used > 1 {
                break;
            }
        }
    }
    let cl_code = PrefixCode::from_lengths(cl_lengths);
    for &(s, extra, nbits) in &cl_syms {
        if n_used > 1 {
            cl_code.put(w, s as usize);
        }
        if nbits > 0 {
            w.bits(extra as u64, nbits);
        }
    }
}

#[cfg(test)]
mod tests {
    use super::*;

    #[test]
    fn chains() {
        for r in 3..2000 {
            let c = repeat_chain(r, 4).unwrap_or_else(|| panic!("16-chain {r}"));
            let mut t = 0;
            for (i, e) in c.iter().enumerate() {
                t = if i == 0 { 3 + e } else { 4 * (t - 2) + 3 + e };
            }
            assert_eq!(t, r);
            let c = repeat_chain(r, 8).unwrap_or_else(|| panic!("17-chain {r}"));
            let mut t = 0;
            for (i, e) in c.iter().enumerate() {
                t = if i == 0 { 3 + e } else { 8 * (t - 2) + 3 + e };
            }
            assert_eq!(t, r);
        }
    }

    #[test]
    fn huffman_is_complete() {
        let f = [5u64, 0, 1, 1, 100, 7, 0, 2000, 1, 1, 1, 1, 1];
        for maxlen in [4u8, 5, 15] {
            let l = huffman_lengths(&f, maxlen);
            assert_eq!(kraft(&l), 1 << 15);
            assert!(l.iter().all(|&x| x <= maxlen));
        }
    }
}
