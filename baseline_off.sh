#!/bin/bash
# Runs the repository's own test suite with the verification guard OFF (no
# --cfg jxl_oxide_verif) and checks that every test of the pinned stable
# baseline (/root/.vp/BASELINE.json, 114 tests) still passes.
set -u
cd /repo || exit 2
export CARGO_NET_OFFLINE=true
unset RUSTFLAGS
LOG=$(mktemp)
cargo test --workspace --no-fail-fast --offline >"$LOG" 2>&1
python3 - "$LOG" <<'EOF'
import json, re, sys
log = open(sys.argv[1], errors='replace').read().splitlines()
crate = None
passed = set()
for line in log:
    m = re.search(r'Running (?:unittests )?\S+ \(target/\S+/deps/([A-Za-z0-9_]+)-[0-9a-f]+\)', line)
    if m:
        crate = m.group(1).replace('_', '-')
        continue
    m = re.match(r'test (\S+)(?: - should panic)? \.\.\. ok', line)
    if m and crate:
        name = m.group(1)
        passed.add(f'{crate}::{name}')
        # integration tests of jxl-oxide-tests are reported as jxl-oxide-tests::test::<name>
        passed.add(f'jxl-oxide-tests::test::{name}')
        passed.add(f'jxl-oxide-cli::{name}')
try:
    base = json.load(open('/root/.vp/BASELINE.json'))['stable_pass']
except Exception:
    base = []
missing = [t for t in base if t not in passed]
n_ok = len([l for l in log if re.match(r'test \S+ \.\.\. ok', l)])
print(f'tests passed in this run: {n_ok}; baseline stable tests: {len(base)}; baseline tests not passing: {len(missing)}')
for t in missing[:20]:
    print('  MISSING', t)
sys.exit(1 if missing or (not base and n_ok < 114) else 0)
EOF
rc=$?
rm -f "$LOG"
exit $rc
