#!/usr/bin/env python3
"""Condenses `vcheck info <file>` output to one line per frame (debugging aid)."""
import sys,re
for l in sys.stdin:
    if l.startswith('image'):
        m=re.search(r'num_extra: (\d+)',l); print(l[:40].split(' metadata')[0],'num_extra',m.group(1) if m else None, 'xyb', 'xyb_encoded: true' in l)
    elif l.startswith('frame') and 'FrameHeader' in l:
        g=lambda k: (re.search(k+r': ([^,}]*)',l) or [None,None])[1]
        e=re.search(r'ec_upsampling: (\[[^\]]*\])',l)
        print(l[:14], g('frame_type'), g('encoding'), 'up',g('upsampling'),'ecup',e.group(1) if e else None,'lf',g('lf_level'),'crop',g('have_crop'),g('x0'),g('y0'),g('width'),'x',g('height'),'mode',g('mode'),'src',g('source'),'dur',g('duration'),'last',g('is_last'),'save',g('save_as_reference'),'bct',g('save_before_ct'),'flags',g('flags'))
    else: print(l[:150].rstrip())
