#!/bin/bash
# ./tools/mutant.sh <seeded-dir-name> <tier> <check> [<check> ...]
# Sensitivity run: applies /verif/seeded/<name>/patch.diff to a tree, runs the given checks, restores it.
# Default: a scratch worktree of /repo (/tmp/mrepo) with a scratch copy of the harness (/tmp/mharness), so
# that work going on in /repo and /verif is not disturbed.  MUTANT_IN_REPO=1 applies the patch to /repo
# itself with `git -C /repo apply` and runs the registered ./run.sh commands (undone with checkout).
# Prints one JSON line per check.
set -u
name="$1"; tier="$2"; shift 2
cd /verif || exit 2
patch="/verif/seeded/$name/patch.diff"
if [ "${MUTANT_IN_REPO:-0}" = 1 ]; then
  if [ -n "$(git -C /repo status --porcelain)" ]; then echo "repo not clean" >&2; exit 2; fi
  git -C /repo apply "$patch" || { echo "{\"mutant\":\"$name\",\"error\":\"patch does not apply\"}"; exit 2; }
  for c in "$@"; do
    t0=$(date +%s); tmp=$(mktemp -d); cp /verif/known_findings.json "$tmp/"; cp -r /verif/replays "$tmp/" 2>/dev/null; mkdir -p "$tmp/evidence"; ln -s /verif/corpus "$tmp/corpus"
    out=$(VERIF_ROOT_OVERRIDE="$tmp" ./run.sh $c $tier 2>&1); rc=$?
    t1=$(date +%s); v=$(echo "$out" | grep -m1 "^VIOLATION" | cut -c1-300 | sed 's/\\/\\\\/g; s/"/\\"/g')
    caught=false; [ $rc -eq 1 ] && caught=true
    echo "{\"mutant\":\"$name\",\"check\":\"$c\",\"tier\":\"$tier\",\"where\":\"/repo\",\"rc\":$rc,\"caught\":$caught,\"secs\":$((t1-t0)),\"first_violation\":\"$v\"}"
    rm -rf "$tmp"
  done
  git -C /repo checkout -- .
  exit 0
fi
head=$(git -C /repo rev-parse HEAD)
if [ ! -d /tmp/mrepo ]; then git -C /repo worktree add -q --detach /tmp/mrepo "$head" || exit 2; fi
git -C /tmp/mrepo checkout -q -- . && git -C /tmp/mrepo checkout -q --detach "$head" || exit 2
mkdir -p /tmp/mharness
rsync -a --delete --exclude target /verif/harness/ /tmp/mharness/
sed -i 's#"/repo/crates/#"/tmp/mrepo/crates/#' /tmp/mharness/vcheck/Cargo.toml
git -C /tmp/mrepo apply "$patch" || { echo "{\"mutant\":\"$name\",\"error\":\"patch does not apply\"}"; exit 2; }
for c in "$@"; do
  t0=$(date +%s)
  tmp=$(mktemp -d); cp /verif/known_findings.json "$tmp/"; cp -r /verif/replays "$tmp/" 2>/dev/null; mkdir -p "$tmp/evidence"; ln -s /verif/corpus "$tmp/corpus"
  prof=release; case $c in C01|C13) prof=checked;; esac
  out=$(cd /tmp/mharness && CARGO_NET_OFFLINE=true cargo build --profile $prof -p vcheck 2>&1 | grep -E "^error" -A5; VERIF_ROOT="$tmp" VERIF_TIER=$tier timeout 3000 target/$prof/vcheck $c --tier $tier 2>&1); rc=$?
  t1=$(date +%s)
  v=$(echo "$out" | grep -m1 "^VIOLATION" | cut -c1-300 | sed 's/\\/\\\\/g; s/"/\\"/g')
  caught=false; [ $rc -eq 1 ] && caught=true
  echo "{\"mutant\":\"$name\",\"check\":\"$c\",\"tier\":\"$tier\",\"where\":\"scratch\",\"rc\":$rc,\"caught\":$caught,\"secs\":$((t1-t0)),\"first_violation\":\"$v\"}"
  rm -rf "$tmp"
done
git -C /tmp/mrepo checkout -q -- .
