#!/usr/bin/env python3
"""Regenerates the three tables of DESIGN.md section 10 (fixed defects, open findings, seeded changes) from
known_findings.json and seeded/results.jsonl.  The prose around them is edited by hand."""
import json, re, os
ROOT = os.path.dirname(os.path.dirname(os.path.abspath(__file__)))
d = json.load(open(f"{ROOT}/known_findings.json"))
res = []
for l in open(f"{ROOT}/seeded/results.jsonl"):
    try:
        res.append(json.loads(l))
    except Exception:
        pass
by = {}
for r in res:
    if "check" in r:
        by[(r["mutant"], r["check"], r["tier"])] = r
mut = {}
for (m, c, t), r in by.items():
    mut.setdefault(m, []).append((c, t, r["caught"], r["secs"]))
rows = []
for m in sorted(mut):
    meta = json.load(open(f"{ROOT}/seeded/{m}/meta.json"))
    caught = [f"{c} {t} ({s}s)" for c, t, k, s in sorted(mut[m]) if k]
    missed = [f"{c} {t}" for c, t, k, s in sorted(mut[m]) if not k]
    rows.append(f"| {m} | {meta['summary'][:110].replace('|', '/')} | {', '.join(caught) or '-'} | {', '.join(missed) or '-'} |")
fixed = [f"| {f['property']} | `{f['commit']}` | {f['line'].split(f['commit'], 1)[1].strip()[:230].replace('|', '/')} | {f.get('found_by', '')[:120].replace('|', '/')} |" for f in d["fixed"]]
openf = [f"| {f['property']} | `{f['signature'][:100]}` | {f['what'][:260].replace('|', '/')} |" for f in d["findings"]]
tables = {
    "fixed-table": "| property | commit | what failed | found by |\n|---|---|---|---|\n" + "\n".join(fixed),
    "findings-table": "| property | signature | why it is not repaired here |\n|---|---|---|\n" + "\n".join(openf),
    "mutants-table": "| seeded change | what it does | caught by | missed by |\n|---|---|---|---|\n" + "\n".join(rows),
}
s = open(f"{ROOT}/DESIGN.md").read()
for name, tab in tables.items():
    s = re.sub(rf"<!-- {name}:begin -->.*?<!-- {name}:end -->", lambda m: f"<!-- {name}:begin -->\n{tab}\n<!-- {name}:end -->", s, flags=re.S)
s = re.sub(r"^\d+ defects were repaired", f"{len(d['fixed'])} defects were repaired", s, flags=re.M)
s = re.sub(r"^\d+ genuine defects are recorded", f"{len(d['findings'])} genuine defects are recorded", s, flags=re.M)
open(f"{ROOT}/DESIGN.md", "w").write(s)
print(f"DESIGN.md tables updated: {len(fixed)} fixed, {len(openf)} open, {len(rows)} seeded changes")
