#!/usr/bin/env python3
"""Generates /verif/MANIFEST.json from the table below (single source of truth)."""
import json, os, subprocess, sys

ROOT = os.path.dirname(os.path.dirname(os.path.abspath(__file__)))

# id -> (category, technique, level text, level note, design ref)
CLAIMED = {
    "C01": ("exploration",
            "PBT / fuzzing over (bytes, chunking, call program): random strings, the repository's fuzz_findings files, and mutated valid streams from the jxlref generators (Modular, multi-frame, VarDCT, JPEG transcodes) driven through a generated program over the whole public decoding API; worker-process isolation with deadlines; checked build (overflow checks + debug assertions)",
            "Generated-input search over hostile inputs and call orders. Every public call must return Ok/Err/a value: a panic (including overflow and debug-assertion panics), an abnormal worker exit or a confirmed deadline overrun (20 s, 200 s alone) is a violation. Known panic signatures (known_findings.json) are tolerated in generated cases so that the search continues behind them.",
            "Trusted: worker isolation and deadline handling of the engine. set_image_region is exercised only with rectangles inside the image (regions outside the image are outside every listed property; they are known to panic in blend). No expectation on Ok vs Err.",
            "DESIGN.md §4 C01"),
    "C02": ("exploration",
            "coverage-guided fuzzing (cargo-fuzz / libFuzzer) under AddressSanitizer: target decode_render (arbitrary bytes + config bytes: buffer width, pool, crop) and target valid_shapes (choice sequences -> valid streams with boundary-class dimensions via the jxlref generators, both buffer widths); fixed -runs per process, 16 processes, seeds from VERIF_SEED",
            "Coverage-guided search for memory-unsafe accesses: any sanitizer report, SIGSEGV or abort is a violation; the crashing input is saved as the replay file. Panics are caught in-target (C01 decides them). libFuzzer timeouts / OOM artefacts are inconclusive (exit 2).",
            "Trusted: libFuzzer + AddressSanitizer runtime of the installed nightly toolchain. Reads of uninitialised memory are not detected (no MemorySanitizer build); only the SIMD paths this CPU selects run. Campaigns are pinned only approximately by -seed/-runs; the saved artefact is the reproducible unit.",
            "DESIGN.md §4 C02"),
    "C03": ("exploration",
            "round-trip PBT: independent lossless Modular *encoder* (all predictors incl. weighted, MA trees, RCT/palette/squeeze, groups/passes, every entropy form) -> jxl-oxide decode; exact integer sample equality",
            "Generated-input search over images and over every encoder choice the Modular format allows; the reference encoder derives residuals by running the specified prediction and context modelling on the true image, so any tree/predictor/transform combination is valid by construction and the decoder must reproduce every sample exactly (default and forced-wide buffers).",
            "Trusted: jxlref::modular (my reading of ISO/IEC 18181-1 Annex H, cross-checked by forward/inverse self-tests of the reference transforms). Regions excluded by construction are listed in the evidence assumptions.",
            "DESIGN.md §4 C03"),
    "C04": ("exploration",
            "round-trip PBT: independent entropy *encoder* (prefix + rANS + LZ77 + cluster maps + Lehmer permutations) with generated code descriptions -> jxl_coding::Decoder; exact values, exact bit count, final-state check; negative cases",
            "Generated-input search over code descriptions (every histogram header form, integer configs, clusterings, LZ77 parameters) and symbol sequences; the decoder must return exactly the encoded sequence, consume exactly the written bits and accept the final ANS state; wrong final states and cluster holes must be rejected.",
            "Trusted: jxlref::entropy (encoder written from ISO/IEC 18181-1 Annex C / RFC 7932). A mistake shared by my encoder and the decoder would go unnoticed; the alias table, hybrid-integer and LZ77 distance maps are written from the definition, not from the decoder's code.",
            "DESIGN.md §4 C04"),
    "C05": ("exploration",
            "model-based PBT: generated multi-frame images (blend modes, crops, slots, patches, animation) rendered in generated keyframe order vs an independent reference compositor",
            "Generated-input search over frame sequences; every rendered keyframe, in any request order, must equal the canvas computed by the reference compositor from the decoded-by-construction frame contents (tolerance 2e-6 relative to max(1,|v|), f32 model using the definition's formulas).",
            "Trusted: jxlref::models::compositor (my reading of the blending and patch rules); regions where I could not pin the definition down are excluded by construction and listed in the evidence assumptions; one genuine patch-blending defect is a known finding.",
            "DESIGN.md §4 C05"),
    "C06": ("exploration",
            "metamorphic PBT: generated images x generated sequences of region requests; every region render vs the same rectangle of the first full render (1e-6), final full render bit-identical",
            "Generated-input search over images (lossless Modular incl. squeeze/palette/multi-group/orientation, multi-frame blending with crops and patches; VarDCT with restoration filters, upsampling, extra channels, noise, splines, patches and LF frames through the VarDCT reference writer) and over request sequences; the project's own crop-test statement is the oracle.",
            "Trusted: the first full render is the reference (self-consistency relation, not absolute correctness; C03/C05 pin absolute values for Modular).",
            "DESIGN.md §4 C06"),
    "C07": ("exploration",
            "metamorphic PBT: same stream rendered with pool none / rayon 1,2,3,8,16, repeatedly, and from 1..4 concurrent caller threads; bit-identical samples and identical Ok/Err outcome (also with one corrupted section)",
            "Generated-input search over images with parallel work and over pool sizes / repetition / caller concurrency; real rayon interleavings are sampled, not enumerated (stated).",
            "Trusted: std threads and rayon provide the interleavings; a race is only caught when it changes samples or outcomes in some run.",
            "DESIGN.md §4 C07"),
    "C08": ("exploration",
            "fault-injection PBT: for generated multi-frame images, fail the k-th (and every later) tracked allocation for every / sampled k via the cfg(jxl_oxide_verif) AllocTracker switch, then run a generated program of later calls (render same/other keyframes, region changes, lift / re-arm the fault); worker-process isolation with deadline; every Ok render bit-identical to a never-failed decode",
            "Generated-input search over images with reference frames, blending and patches, over all (small images: exhaustive) or sampled fault points, and over post-failure call sequences. A call that never returns is a confirmed deadline overrun of the isolated worker; any later successful render must equal the same keyframe/region of a fresh decode that never failed, bit for bit.",
            "Trusted: the allocation-fault hook (hooks_commits.txt, 031567c) fails exactly the allocations registered with the tracker. Deadlines (20 s per case, 200 s alone) decide 'never returns'; an unconfirmed overrun is reported as inconclusive (exit 2), never as a violation.",
            "DESIGN.md §4 C08"),
    "C09": ("exploration",
            "metamorphic PBT: generated valid files x generated chunkings (structure-boundary biased) fed through the incremental API vs whole-buffer read; field-wise and sample-wise equality",
            "Generated-input search over valid files (bare/container, split jxlp, aux boxes, multi-section frames, permuted TOCs) and over chunkings biased to structure boundaries; the incremental decoder must report exactly what the one-shot decoder reports, including bit-identical samples.",
            "Trusted: the feeding driver implements the documented contract (unconsumed bytes re-offered); files come from the unified jxlref corpus (single-frame Modular, multi-frame Modular with blending and patches, VarDCT incl. noise, splines, patches, LF frames, upsampling, extra channels).",
            "DESIGN.md §4 C09"),
    "C10": ("exploration",
            "model-based PBT: generated box layouts x chunkings vs expected event list (proptest over choice sequences, shrinking)",
            "Generated-input search: box layouts (all size forms, jxlc/jxlp splits, raw and brob aux boxes, ten ill-formed constructions) and chunkings are generated; the parser's event stream must equal an independently written model and ill-formed layouts must be rejected for every feed pattern. Exploration is the right level: the property quantifies over unbounded layouts/chunkings and the oracle is exact.",
            "Trusted: the model of the container grammar in jxlref::container (written from ISO/IEC 18181-2), stored-block Brotli writer. brob decompression of compressed meta-blocks is delegated to brotli-decompressor.",
            "DESIGN.md §4 C10"),
    "C11": ("exploration",
            "metamorphic PBT: generated valid files x cut positions (every byte for small files) x generated loading-render attempts; need-more-data classification + bit-identical final result",
            "Generated-input search over valid files and prefixes: at every cut the incremental API may only say 'need more data' (never an error), a loading-frame render is either a full-size image or a need-more-data error, and completing the stream gives exactly the uninterrupted result.",
            "Trusted: error classification walks the std::error::Error source chain for IncompleteFrame / unexpected-EOF; corpus = jxlref single-frame Modular files incl. multi-pass and squeezed (progressive) shapes; VarDCT/LF-frame shapes join when their writer lands.",
            "DESIGN.md §4 C11"),
    "C12": ("exploration",
            "differential PBT: generated depth<=12 Modular streams that truthfully declare 16-bit buffers, decoded with narrow (SIMD) vs forced-wide (scalar) buffers, and against the original",
            "Generated-input search over Modular streams whose every stored and intermediate value fits 16 bits by construction; narrow-buffer decode (AVX2 kernels on this host) must equal forced-wide decode sample for sample, and both must equal the original image.",
            "Trusted: the encoder's range simulation defines 'truthful'; inverse-transform intermediates (squeeze tendency terms, RCT sums) are included after a counter-example showed the decoder evaluates them in 16-bit lanes (see DESIGN §7).",
            "DESIGN.md §4 C12"),
    "C13": ("exploration",
            "PBT with fault thresholds: generated (valid or mutated) streams x generated allocation limits around the clean run's measured usage x call sequences; accounting invariants observed through a cfg(jxl_oxide_verif) accessor; checked build, worker-process isolation",
            "Generated-input search over streams, limits (0, 1, thresholds derived from a clean run, ample) and call sequences; after everything is dropped the tracker must hold exactly its initial budget, the available bytes never exceed the initial limit, and no configuration may panic, abort or hang (overflow checks and debug assertions enabled).",
            "Trusted: the hook only reads counters. Tracked totals are observed between API calls. Whether a too-small limit must produce an error is not asserted (the library may skip optional scratch buffers).",
            "DESIGN.md §4 C13"),
    "C14": ("exploration",
            "round-trip PBT: independent header writer with generated field values and generated (non-canonical) encodings -> Bundle::parse, field-wise equality + exact bit position",
            "Generated-input search over the conditional layout of ImageHeader / FrameHeader / TOC: every field combination the generator can express is written by an independent writer (any legal U32 selector, any U64 form incl. 64-bit tail, arbitrary finite F16 patterns, all_default/div8/ratio shortcuts chosen at random) and the decoder must report exactly the written values and stop at exactly the written bit.",
            "Trusted: jxlref::headers (my reading of ISO/IEC 18181-1 Annex A/C); two spec/libjxl ambiguities are excluded by construction and listed in the evidence assumptions.",
            "DESIGN.md §4 C14"),
    "C15": ("exploration",
            "metamorphic PBT: generated images x 8 orientations x crops; interleaved / planar / f32,u16,u8 streams compared with the unoriented grids moved by an independently written EXIF coordinate map",
            "Generated-input search: all output buffer kinds must describe the same picture, with the reported oriented dimensions, the documented channel order, correct integer rounding, chunked stream writes equal to one-shot writes, and crop regions equal to the rectangle of the full oriented picture.",
            "Trusted: my transcription of the EXIF orientation semantics (orient_map) and the defined sample-to-float conversion. CMYK/black ordering and spot-colour mixing are not generated (stated in evidence).",
            "DESIGN.md §4 C15"),
    "C16": ("exploration",
            "differential PBT against an f64 reference of the 27 inverse varblock transforms written from their definitions; generated coefficient blocks / LF inputs / buffer placements; generic vs arch path; table-free invariants (Gram matrix, Parseval, box averages)",
            "Generated-input search plus systematic impulse sweeps: both the generic and the CPU-selected entry point (exposed by a cfg(jxl_oxide_verif) re-export) must match the double-precision definition within per-family norm-relative tolerances frozen at >= 4x the worst observed error, must agree with each other within half of that, and must not write outside the processed varblocks.",
            "Trusted: jxlref::models::idct (independent f64 model, AFV basis transcribed from the format's table and checked for orthonormality). Only the x86-64 SSE2/SSE4.1 paths exist on this host. Coefficient transposition for tall blocks happens before this entry point and is not covered here.",
            "DESIGN.md §4 C16"),
    "C17": ("exploration",
            "round-trip PBT: independent baseline-JPEG writer + lossless JPEG->JPEG XL transcoder (VarDCT reference writer, jbrd payload writer) -> reconstruct_jpeg; byte equality with the generated JPEG; status/attempt consistency at every feed step; hostile jbrd boxes (generated bit flips and field-targeted edits) must give errors",
            "Generated-input search over JPEG structures (sampling factors, quantisation/Huffman tables incl. generated ones, scan scripts, restart intervals, APPn/COM/ICC/Exif/XMP, padding patterns, tails) and coefficient contents, over container layouts and arrival orders; the reconstructed bytes must equal the original file, 'Available' must imply that reconstruct_jpeg does not fail for missing data, and hostile reconstruction data must not panic.",
            "Trusted: jxlref::jpeg (JPEG writer from ITU-T T.81, self-checked by an independent reader on every case) and the jbrd payload layout as implemented by libjxl (COM/APP data carry their marker byte; padding bits in stream order). Progressive JPEG, 4-component and RGB JPEGs are not generated (stated in the evidence).",
            "DESIGN.md §4 C17"),
    "C18": ("exploration",
            "round-trip PBT: independent ICC-stream *encoder* with generated command segmentation (header prediction, tag shortcuts, raw/shuffle/predicted runs) over generated profiles -> read_icc/decode_icc and JxlImage::original_icc byte equality; 18 constructed negative cases",
            "Generated-input search over profiles (structured and noise, 0..300 KiB) and over encodings of each profile; the decoder must return the profile byte for byte and stop at the written bit; inconsistent encodings (by construction, confirmed by a reference interpreter) must be rejected.",
            "Trusted: jxlref::icc (encoder + reference interpreter from the format definition). Ragged 4-way shuffles (n mod 4 in {1,2}) are excluded: the decoder follows the 'balanced rows' reading while libjxl's code uses ceil(n/4)-sized rows; observed, not asserted (DESIGN §7).",
            "DESIGN.md §4 C18"),
    "C19": ("exploration",
            "round-trip + metamorphic PBT: generated enum colour encodings -> synthesised ICC -> parse back (equivalence with 1e-4 tolerances); generated samples through public ColorTransform there-and-back (inversion, monotonicity); identity transforms are no-ops",
            "Generated-input search over enum colour encodings that name a real colour space (constructed, not filtered: custom white points/primaries with stated plausibility rules, gamma 1221..1e7 and non-inverted forms, all intents) and over sample values per transfer function; tolerances calibrated on the unchanged tree and frozen (listed in the evidence).",
            "Trusted: jxlref::colour_model (f64 reference curves, Bradford adaptation, ICC s15Fixed16 resolution model). Four genuine defects are recorded as known findings (PQ/HLG profiles not recognised, marginal snapping to named chromaticities, large gamma exponents); render-level identity conversion is not yet covered (stated in evidence).",
            "DESIGN.md §4 C19"),
    "C20": ("exploration",
            "schedule-controlled PBT: 2-3 caller threads with generated render programs on generated multi-frame images, interleaved by a token scheduler behind cfg(jxl_oxide_verif) hooks at every synchronisation point of the render-handle protocol; the schedule is a generated, shrinkable byte string; optional injected failure (bit flip / allocation fault)",
            "Generated-input search over images with reference chains, caller programs and schedules. The harness owns the interleaving (exactly one caller runs between scheduling points), so a deadlock or lost wake-up is detected deterministically (every unfinished caller waiting), results are compared bit-for-bit with the single-threaded render, and overlapping executions of one frame's render operation are observed directly.",
            "Trusted: the scheduler hooks (hooks_commits.txt hook2) and the substituted condition-variable wait (Condvar::wait semantics minus spurious wake-ups). Preemption only at hook points; the real notify_all call itself is not on the hooked path (C07 with real threads covers it).",
            "DESIGN.md §4 C20"),
}

PENDING_REASON = "not claimed yet: machinery for this property is still being built in this work session (see DESIGN.md §8 build order); the technique applies"

def main():
    props = [json.loads(l) for l in open(os.path.join(ROOT, "properties.jsonl"))]
    hooks_commits = []
    hf = os.path.join(ROOT, "hooks_commits.txt")
    if os.path.exists(hf):
        hooks_commits = [l.split()[0] for l in open(hf) if l.strip() and not l.startswith("#")]
    checks = []
    na = []
    for p in props:
        pid = p["id"]
        if pid in CLAIMED:
            cat, tech, text, note, ref = CLAIMED[pid]
            checks.append({
                "property_id": pid,
                "quick_cmd": f"./run.sh {pid} quick",
                "thorough_cmd": f"./run.sh {pid} thorough",
                "evidence_file": f"/verif/evidence/{pid}.json",
                "replay_cmd_template": "./run.sh replay {path}",
                "engine": "libfuzzer-asan" if pid == "C02" else "vcheck",
                "level_claimed": {"category": cat, "text": text, "design_ref": ref},
                "level_note": note,
                "technique": tech,
            })
        else:
            na.append({"property_id": pid, "reason": NOT_APPLICABLE.get(pid, PENDING_REASON)})
    m = {
        "version": 1,
        "setup_cmd": "cd /verif/harness && CARGO_NET_OFFLINE=true cargo build --release -p vcheck && CARGO_NET_OFFLINE=true cargo build --profile checked -p vcheck && cd /verif/fuzz && CARGO_NET_OFFLINE=true cargo +nightly fuzz build --fuzz-dir /verif/fuzz",
        "hooks": {
            "guard": "--cfg jxl_oxide_verif",
            "enable": "rustflags = [\"--cfg\", \"jxl_oxide_verif\"] in /verif/harness/.cargo/config.toml (and RUSTFLAGS for the cargo-fuzz crate); the harness path-depends on /repo/crates/*, so every check rebuilds from /repo's working tree",
            "baseline_off_cmd": "/verif/baseline_off.sh",
            "source_commits": hooks_commits,
            "add_only": True,
        },
        "engines": [
            {"name": "vcheck", "path": "/verif/harness/vcheck", "serves_properties": sorted(CLAIMED.keys()),
             "kind_free_text": "proptest-driven generated-input search over choice sequences (16 runner threads, fixed seeds from VERIF_SEED), shrinking, replay files, optional worker-process isolation"},
            {"name": "libfuzzer-asan", "path": "/verif/fuzz", "serves_properties": ["C02"],
             "kind_free_text": "cargo-fuzz 0.13 project (libFuzzer + AddressSanitizer, nightly toolchain) with targets decode_render and valid_shapes; driven by /verif/checks/C02.sh with fixed -runs per process"},
            {"name": "jxlref", "path": "/verif/harness/jxlref", "serves_properties": sorted(CLAIMED.keys()),
             "kind_free_text": "independent reference writer/encoder and reference models for the JPEG XL format (links no jxl-oxide code)"},
        ],
        "checks": checks,
        "notes": "Known findings: /verif/known_findings.json (read-only at run time). Replays: /verif/replays/<id>/*.json, re-run strictly at the start of every check.",
        "not_applicable": na,
    }
    json.dump(m, open(os.path.join(ROOT, "MANIFEST.json"), "w"), indent=1)
    print(f"MANIFEST.json: {len(checks)} checks, {len(na)} not claimed")

NOT_APPLICABLE = {}

if __name__ == "__main__":
    main()
