#!/bin/bash
# runs every registered check's quick tier with several seeds; prints only problems
cd /verif
ids=$(python3 -c "import json;print(' '.join(c['property_id'] for c in json.load(open('MANIFEST.json'))['checks']))")
for seed in "$@"; do
  for id in $ids; do
    out=$(VERIF_SEED=$seed ./run.sh $id quick 2>&1); rc=$?
    if [ $rc -ne 0 ] || echo "$out" | grep -q VIOLATION; then echo "seed=$seed $id rc=$rc"; echo "$out" | grep -v KNOWN | cut -c1-400 | tail -3; fi
  done
done
echo "seed sweep done: $*"
